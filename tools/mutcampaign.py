#!/usr/bin/env python3
"""mutcampaign.py [--max N] [--seed S] [--files a.go,b.go] : systematic mutation campaign (developer tool).

For simple syntactic mutants of the non-test sources of /repo (relational flips, off-by-one, boolean flips,
&&/||) that still compile and pass the repository's own tests, record
  * whether the bounded differential harnesses (/verif/replay/*_search_test.go) see a behaviour change, and
  * whether the deductive obligations of the mutated package still discharge (govc vc -repo <copy> <pkg>::).
A mutant the harnesses see but the contracts do not is a gap in the contracts. Everything runs on scratch
copies under the system temp directory; results go to stdout as one line per mutant.
"""
import json, os, random, re, shutil, subprocess, sys, tempfile, time

ENV = dict(os.environ, GOFLAGS="-mod=mod", GOPROXY="off", GOSUMDB="off", GOTOOLCHAIN="local")
OPS = [
    (r"(?<![<>=!])<(?![<=-])", "<="), (r"<=", "<"), (r"(?<![<>=!-])>(?![>=])", ">="), (r">=", ">"),
    (r"==", "!="), (r"!=", "=="), (r"&&", "||"), (r"\|\|", "&&"),
    (r"\+ 1\b", "+ 2"), (r"- 1\b", "- 0"), (r"\+ 1\b", "+ 0"), (r"\btrue\b", "false"), (r"\bfalse\b", "true"),
    (r"\b0\b", "1"), (r"\b1\b", "0"),
]
SWAPS = [("TopLeft", "TopRight"), ("BottomLeft", "BottomRight"), ("Left", "Right"), ("HOuter", "HRule"), ("VBodyBorder", "VBodyInner"),
         ("HTopDown", "BTopDown"), ("HBLeft", "HBRight"), ("LeftBodyRule", "RightBodyRule"), ("addTime", "renderTime"),
         ("preCellRenderTime", "postCellRenderTime"), ("CB_AT_RENDER_PRECELL", "CB_AT_RENDER_POSTCELL"), ("CB_AT_ADD", "CB_AT_RENDER"),
         ("rowItselfCallbacks", "rowCellCallbacks"), ("tableItselfCallbacks", "tableCellCallbacks"), ("tableCellCallbacks", "tableRowAdditionCallbacks"),
         ("columnItselfCallbacks", "cellCallbacks"), ("width", "height"), ("Row", "Column"), ("rowNum", "columnNum"), ("CB_ON_CELL", "CB_ON_ROW"),
         ("headers", "cells"), ("Center", "Right"), ("LineHeaderTop", "LineBodyTop"), ("LineBottom", "LineSeparator"), ("HeaderLineRendered", "BodyLineRendered"),
         ("cellWidth", "height"), ("nColumns", "rowNum"), ("key", "val"), ("str", "raw")]
SKIP_FILES = ("zz_verif_contracts.go", "_test.go", "pretty.go", "version.go", "doc.go")


def sites():
    out = []
    for root, dirs, files in os.walk("/repo"):
        if ".git" in root or "/examples" in root or "/cmd" in root:
            continue
        for f in sorted(files):
            if not f.endswith(".go") or any(f.endswith(s) for s in SKIP_FILES):
                continue
            p = os.path.join(root, f)
            rel = os.path.relpath(p, "/repo")
            infunc = False
            for ln, line in enumerate(open(p).read().split("\n")):
                if line.startswith("func "):
                    infunc = True
                if line.startswith("}"):
                    infunc = False
                s = line.strip()
                if infunc and re.match(r"^return (fmt\.Errorf|errors\.New)\(.*\)$", s):
                    ind = line[: len(line) - len(line.lstrip())]
                    out.append((rel, ln, 0, len(line), ind + "return nil", 98))
                if not infunc or s.startswith("//") or s.startswith("func ") or "Errorf(" in s or "panic(" in s or '"' in s and "==" not in s and "!=" not in s:
                    continue
                code = line.split("//")[0]
                # statement deletion: plain assignments, op-assignments, ++/--, and call statements
                if re.match(r"^\s+[A-Za-z_][\w\.\[\]\*]*\s*(=|\+=|-=)\s*[^=].*$", code) or re.match(r"^\s+[A-Za-z_][\w\.]*(\+\+|--)\s*$", code) or re.match(r"^\s+[A-Za-z_][\w\.]*\(.*\)\s*$", code):
                    if not code.strip().startswith(("return", "defer", "go ", "if ", "for ", "switch ")):
                        out.append((rel, ln, 0, len(line), "", 99))
                # swallowed errors and swapped branches of results
                m = re.match(r"^(\s+)return (err|e|fmt\.Errorf\(.*\)|errors\.New\(.*\))\s*$", code)
                if m:
                    out.append((rel, ln, 0, len(line), m.group(1) + "return nil", 98))
                m = re.match(r"^(\s+)return (.*), (err|fmt\.Errorf\(.*\))\s*$", code)
                if m:
                    out.append((rel, ln, 0, len(line), m.group(1) + "return " + m.group(2) + ", nil", 97))
                m = re.match(r"^(\s+)continue\s*$", code)
                if m:
                    out.append((rel, ln, 0, len(line), m.group(1) + "break", 96))
                m = re.match(r"^(\s+)break\s*$", code)
                if m:
                    out.append((rel, ln, 0, len(line), m.group(1) + "continue", 95))
                for a, b in SWAPS:
                    for x, y in ((a, b), (b, a)):
                        for m in re.finditer(r"(?<![A-Za-z0-9_])" + re.escape(x) + r"(?![A-Za-z0-9_])", code):
                            out.append((rel, ln, m.start(), m.end(), y, 94))
                for oi, (pat, rep) in enumerate(OPS):
                    for m in re.finditer(pat, code):
                        out.append((rel, ln, m.start(), m.end(), rep, oi))
    return out


def run(cmd, cwd, timeout):
    try:
        r = subprocess.run(cmd, cwd=cwd, capture_output=True, text=True, env=ENV, timeout=timeout)
        return r.returncode, r.stdout + r.stderr
    except subprocess.TimeoutExpired:
        return 124, "timeout"


def harnesses(repo):
    hs = json.load(open("/verif/standins/standins.json"))
    failed = []
    for h in hs:
        runname = h.get("run_thorough") or h.get("run_quick")
        if not runname or "PopulateAll" in runname:
            runname = h.get("run_quick") or runname
        tf = os.path.join("/verif", h["test"])
        d = tempfile.mkdtemp(prefix="mc-ov")
        ov = {"Replace": {os.path.join(repo, h["pkg"], "zz_h_" + os.path.basename(tf)): tf}}
        json.dump(ov, open(os.path.join(d, "ov.json"), "w"))
        rc, out = run(["go", "test", "-overlay", os.path.join(d, "ov.json"), "-vet=off", "-count=1", "-timeout", "120s", "-run", "^" + runname + "$", "."], os.path.join(repo, h["pkg"]), 200)
        shutil.rmtree(d, ignore_errors=True)
        if rc != 0:
            failed.append(runname)
    return failed


def main():
    maxn, seed, only = 60, 1, None
    a = sys.argv[1:]
    while a:
        if a[0] == "--max":
            maxn = int(a[1]); a = a[2:]
        elif a[0] == "--seed":
            seed = int(a[1]); a = a[2:]
        elif a[0] == "--files":
            only = a[1].split(","); a = a[2:]
        else:
            a = a[1:]
    ss = sites()
    if os.environ.get("CAMPAIGN_OPS"):
        keep = set(int(x) for x in os.environ["CAMPAIGN_OPS"].split(","))
        ss = [s for s in ss if s[5] in keep]
    if only:
        ss = [s for s in ss if s[0] in only]
    random.Random(seed).shuffle(ss)
    seen = set()
    for f in os.environ.get("CAMPAIGN_DONE", "").split(","):
        if f and os.path.exists(f):
            for l in open(f):
                m = re.search(r"(\S+\.go:\d+: `.*` -> `.*`)", l)
                if m:
                    seen.add(m.group(1))
    done = 0
    for rel, ln, a0, a1, rep, oi in ss:
        if done >= maxn:
            break
        d = tempfile.mkdtemp(prefix="mutcamp-")
        try:
            repo = os.path.join(d, "repo")
            shutil.copytree("/repo", repo, ignore=shutil.ignore_patterns(".git"))
            p = os.path.join(repo, rel)
            lines = open(p).read().split("\n")
            old = lines[ln]
            lines[ln] = old[:a0] + rep + old[a1:]
            open(p, "w").write("\n".join(lines))
            desc = f"{rel}:{ln+1}: `{old.strip()}` -> `{lines[ln].strip()}`"
            if desc in seen:
                continue
            rc, out = run(["go", "build", "./..."], repo, 120)
            if rc != 0:
                continue
            rc, out = run(["go", "test", "-vet=off", "-count=1", "./..."], repo, 300)
            if rc != 0:
                print(f"KILLED-BY-TESTS {desc}", flush=True)
                continue
            done += 1
            hf = harnesses(repo)
            pkgdir = os.path.dirname(rel)
            pkgpat = "tabular/" + pkgdir + "::" if pkgdir else "tabular::"
            t0 = time.time()
            rc, out = run(["/verif/bin/govc", "vc", "-t", "30", "-repo", repo, pkgpat], "/verif", 1500)
            NOISE = ("column-count-attained-after-header-replacement", "listed-name-is-accepted", "(*Row).invokeRenderCallbacks/inv-preserved#17")
            fails = [l for l in out.split("\n") if (l.startswith("FAIL") or "NOT VERIFIED" in l) and not any(n in l for n in NOISE)]
            ded = "FAIL" if fails else "pass"
            verdict = "ok" if fails else ("GAP" if hf else "equivalent?")
            print(f"{verdict:11s} deductive={ded}({len(fails)}) harness={'FAIL:' + ','.join(hf) if hf else 'pass'} {desc}  [{time.time()-t0:.0f}s]", flush=True)
            for l in fails[:3]:
                print("      " + l[:200], flush=True)
        finally:
            shutil.rmtree(d, ignore_errors=True)


main()
