#!/bin/bash
# seedcheck.sh <seed dir name under /verif/seeded> <property> : run the property's quick check against a scratch
# worktree of /repo's HEAD with the seeded change applied (govc check --repo), then remove the worktree.
# Output: /tmp/seedcheck-<seed>.out (summary + VIOLATION lines).
export GOFLAGS=-mod=mod GOPROXY=off GOSUMDB=off GOTOOLCHAIN=local
s=$1; p=$2
wt=/tmp/st-$s
git -C /repo worktree add -q --detach $wt HEAD || exit 2
git -C $wt apply /verif/seeded/$s/patch.diff || { echo "PATCH DOES NOT APPLY"; exit 2; }
(cd /verif && bin/govc check $p --no-evidence --replays /tmp/st-$s.replays --repo $wt 2>&1 | tail -30 | cut -c1-260) > /tmp/seedcheck-$s.out
git -C /repo worktree remove --force $wt; git -C /repo worktree prune; rm -rf /tmp/st-$s.replays
cat /tmp/seedcheck-$s.out
