#!/usr/bin/env python3
"""mutcheck.py <prop> <file> <old> <new> : copy /repo to a scratch dir, replace old->new in file, run the check there, clean up."""
import sys, shutil, subprocess, tempfile, os
prop, f, old, new = sys.argv[1:5]
d = tempfile.mkdtemp(prefix="mut-")
try:
    r = os.path.join(d, "repo")
    shutil.copytree("/repo", r, ignore=shutil.ignore_patterns(".git"))
    p = os.path.join(r, f)
    s = open(p).read()
    if old not in s:
        print("PATTERN NOT FOUND"); sys.exit(2)
    open(p, "w").write(s.replace(old, new, 1))
    b = subprocess.run(["go", "build", "./..."], cwd=r, capture_output=True, text=True, env=dict(os.environ, GOFLAGS="-mod=mod", GOPROXY="off", GOSUMDB="off", GOTOOLCHAIN="local"))
    if b.returncode != 0:
        print("MUTANT DOES NOT COMPILE:", b.stderr[:500]); sys.exit(2)
    out = subprocess.run(["/verif/bin/govc", "check", prop, "--repo", r, "--no-evidence", "--replays", os.path.join(d, "replays")] + sys.argv[5:], capture_output=True, text=True)
    print(out.stdout[-3000:], out.stderr[-1500:])
    sys.exit(out.returncode)
finally:
    shutil.rmtree(d, ignore_errors=True)
