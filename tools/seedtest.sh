#!/bin/bash
# seedtest.sh <seed-dir-with-patch.diff> <property> : confirm a seeded change (suite passes, demo fails with / passes without),
# then run the property check against /repo with the change applied, and undo it.
set -u
export GOFLAGS=-mod=mod GOPROXY=off GOSUMDB=off GOTOOLCHAIN=local
sd=$1; prop=$2
if [ -n "$(git -C /repo status --porcelain)" ]; then echo "REFUSING: /repo has uncommitted changes (commit them first)"; exit 2; fi
pkg=$(cat $sd/demo_pkg.txt | tr -d ' \n')
wt=$(mktemp -d /tmp/seedwt.XXXX)
git -C /repo worktree add -q --detach $wt HEAD || exit 2
cleanup() { git -C /repo worktree remove --force $wt >/dev/null 2>&1; git -C /repo checkout -- . ; }
trap cleanup EXIT
cp $sd/seed_demo_test.go $wt/$pkg/seed_demo_test.go
echo "== demo WITHOUT the change (must pass)"
(cd $wt/$pkg && go test -vet=off -count=1 -run 'Seed' . 2>&1 | tail -1)
git -C $wt apply $sd/patch.diff || { echo "PATCH DOES NOT APPLY"; exit 2; }
echo "== demo WITH the change (must fail)"
(cd $wt/$pkg && go test -vet=off -count=1 -run 'Seed' . 2>&1 | tail -1)
rm $wt/$pkg/seed_demo_test.go
echo "== existing suite WITH the change (must pass)"
(cd $wt && go build ./... && go test -vet=off -count=1 ./... 2>&1 | grep -v 'no test files' | grep -v '^ok' ; echo "suite-exit=$?")
echo "== check $prop against /repo with the change applied"
git -C /repo apply $sd/patch.diff || { echo "PATCH DOES NOT APPLY TO /repo"; exit 2; }
(cd /verif && ./check $prop --no-evidence --replays $wt/replays 2>&1 | tail -6 | cut -c1-220)
git -C /repo checkout -- .
