#!/bin/bash
# confirmseed.sh <abs seed dir> : confirm a seeded change in a scratch worktree of /repo's HEAD:
#  (1) the patch applies and everything builds, (2) the repository's own tests pass with it,
#  (3) the demonstration fails with the patch, (4) the demonstration passes without it.
# The worktree is removed afterwards. Prints one summary line; exit 0 iff all four hold.
export GOFLAGS=-mod=mod GOPROXY=off GOSUMDB=off GOTOOLCHAIN=local
sd="$1"
id=$(basename "$sd")
wt=$(mktemp -d /tmp/cs-$id-XXXX)
rmdir "$wt"
git -C /repo worktree add --detach "$wt" HEAD >/dev/null 2>&1 || { echo "$id: worktree failed"; exit 2; }
cleanup() { git -C /repo worktree remove --force "$wt" >/dev/null 2>&1; git -C /repo worktree prune; rm -rf "$wt"; }
trap cleanup EXIT
pkg=$(cat "$sd/demo_pkg.txt" | tr -d ' \n')
run=$(grep -o '^func Test[A-Za-z0-9_]*' "$sd/seed_demo_test.go" | sed 's/func //' | paste -sd'|')
extra="${SEEDFLAGS:-}"
# (4) demo on the unchanged tree
cp "$sd/seed_demo_test.go" "$wt/$pkg/zz_seed_demo_test.go"
(cd "$wt/$pkg" && go test -vet=off -count=1 -timeout 120s $extra -run "^($run)\$" . ) > "$wt/.demo_clean.out" 2>&1; clean=$?
rm "$wt/$pkg/zz_seed_demo_test.go"
git -C "$wt" apply "$sd/patch.diff" || { echo "$id: PATCH DOES NOT APPLY"; exit 2; }
(cd "$wt" && go build ./... ) > "$wt/.build.out" 2>&1 || { echo "$id: DOES NOT BUILD"; cat "$wt/.build.out"; exit 2; }
(cd "$wt" && go test -vet=off -count=1 -timeout 10m ./... ) > "$wt/.suite.out" 2>&1; suite=$?
cp "$sd/seed_demo_test.go" "$wt/$pkg/zz_seed_demo_test.go"
(cd "$wt/$pkg" && go test -vet=off -count=1 -timeout 120s $extra -run "^($run)\$" . ) > "$wt/.demo_seeded.out" 2>&1; seeded=$?
echo "$id: demo-on-clean-tree=$([ $clean = 0 ] && echo pass || echo FAIL) suite-with-patch=$([ $suite = 0 ] && echo pass || echo FAIL) demo-with-patch=$([ $seeded != 0 ] && echo fails-as-expected || echo PASSES)"
if [ "${VERBOSE:-}" = 1 ]; then tail -15 "$wt/.demo_seeded.out"; [ $clean != 0 ] && tail -15 "$wt/.demo_clean.out"; [ $suite != 0 ] && tail -15 "$wt/.suite.out"; fi
[ $clean = 0 ] && [ $suite = 0 ] && [ $seeded != 0 ]
