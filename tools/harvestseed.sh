#!/bin/bash
# harvestseed.sh <ID> <demo pkg dir relative to the worktree root> : collect a second-round seeded change from the
# sub-agent's scratch worktree /tmp/seed2/<ID> into /verif/seeded/<ID>-2/ (patch.diff without the contract files,
# the demonstration, demo_pkg.txt), confirm it in a fresh scratch worktree (confirmseed.sh), and remove the sub-agent's worktree.
set -u
id=$1; pkg=$2
wt=/tmp/seed2/$id
sd=/verif/seeded/$id-2
mkdir -p $sd
git -C $wt diff -- . ':(exclude)*zz_verif_contracts.go' > $sd/patch.diff
cp $wt/$pkg/seed_demo_test.go $sd/seed_demo_test.go
echo "$pkg" > $sd/demo_pkg.txt
echo "patch: $(grep -c '^[+-][^+-]' $sd/patch.diff) changed lines in $(grep -c '^diff' $sd/patch.diff) file(s)"
/verif/tools/confirmseed.sh $sd && { git -C /repo worktree remove --force $wt; git -C /repo worktree prune; echo "worktree $wt removed"; }
