#!/bin/sh
# overlaytest.sh <pkgdir-relative-to-repo> <testfile> [-run X] : run an in-package test against /repo (or $REPO) without writing to it.
set -e
export GOFLAGS=-mod=mod GOPROXY=off GOSUMDB=off GOTOOLCHAIN=local
REPO=${REPO:-/repo}
pkg=$1; tf=$2; shift 2
d=$(mktemp -d)
trap 'rm -rf "$d"' EXIT
name=zz_overlay_$(basename "$tf")
printf '{"Replace":{"%s/%s/%s":"%s"}}' "$REPO" "$pkg" "$name" "$(readlink -f "$tf")" > "$d/ov.json"
cd "$REPO/$pkg" && go test -overlay "$d/ov.json" -vet=off -count=1 -timeout ${OVERLAY_TIMEOUT:-60s} "$@" .
