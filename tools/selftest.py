#!/usr/bin/env python3
"""selftest.py [ids...] : must-fail corpus. Every mutant in selftest/mutants.json and every seeded change in
seeded/<id>/patch.diff is applied to a scratch copy of /repo (never to /repo itself); the property check must
exit 1 with a VIOLATION line naming the expected obligation. Run after every engine or contract change."""
import json, os, shutil, subprocess, sys, tempfile
env = dict(os.environ, GOFLAGS="-mod=mod", GOPROXY="off", GOSUMDB="off", GOTOOLCHAIN="local")
muts = json.load(open("/verif/selftest/mutants.json"))
for d in sorted(os.listdir("/verif/seeded")):
    meta = json.load(open(f"/verif/seeded/{d}/meta.json"))
    if meta.get("not_caught"):
        print(f"seed-{d}: documented miss (outside the deductive claim), skipped -- {meta['change'][:80]}"); continue
    muts.append({"id": "seed-" + d, "prop": meta["property"], "patch": f"/verif/seeded/{d}/patch.diff", "expect": meta.get("expect", ""), "why": meta["change"]})
want = set(sys.argv[1:])
bad = 0
for m in muts:
    if want and m["id"] not in want:
        continue
    d = tempfile.mkdtemp(prefix="selftest-")
    try:
        r = os.path.join(d, "repo")
        shutil.copytree("/repo", r, ignore=shutil.ignore_patterns(".git"))
        if "patch" in m:
            p = subprocess.run(["patch", "-p1", "-s", "-i", m["patch"]], cwd=r, capture_output=True, text=True)
            if p.returncode != 0:
                print(f"{m['id']}: PATCH DOES NOT APPLY"); bad += 1; continue
        else:
            f = os.path.join(r, m["file"]); s = open(f).read()
            if m["old"] not in s:
                print(f"{m['id']}: PATTERN NOT FOUND"); bad += 1; continue
            open(f, "w").write(s.replace(m["old"], m["new"], 1))
        b = subprocess.run(["go", "build", "./..."], cwd=r, capture_output=True, text=True, env=env)
        if b.returncode != 0:
            print(f"{m['id']}: DOES NOT COMPILE {b.stderr[:300]}"); bad += 1; continue
        out = subprocess.run(["/verif/bin/govc", "check", m["prop"], "--repo", r, "--no-evidence", "--replays", os.path.join(d, "replays")], capture_output=True, text=True, env=env)
        vio = [l for l in out.stdout.split("\n") if l.startswith("VIOLATION")]
        hit = [l for l in vio if m.get("expect", "") in l]
        ok = out.returncode == 1 and vio and (hit or not m.get("expect"))
        print(f"{m['id']} {m['prop']}: {'caught' if ok else 'MISSED'} ({len(vio)} violations{'; expected '+m['expect'] if not hit and m.get('expect') else ''}) -- {m['why'][:90]}")
        if not ok:
            bad += 1
            print("   ", "\n    ".join(vio[:4]))
    finally:
        shutil.rmtree(d, ignore_errors=True)
print("selftest:", "all caught" if bad == 0 else f"{bad} NOT caught")
sys.exit(1 if bad else 0)
