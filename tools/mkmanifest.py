#!/usr/bin/env python3
"""Regenerates MANIFEST.json from tools/claims.json (the per-property claim texts) and properties.jsonl."""
import json, subprocess
props=[json.loads(l) for l in open('/verif/properties.jsonl')]
claims=json.load(open('/verif/tools/claims.json'))
hooks=subprocess.run(['git','-C','/repo','log','--format=%H %s'],capture_output=True,text=True).stdout.strip().split('\n')
hook_commits=[l.split()[0] for l in hooks if l.split(' ',1)[1].startswith('verif:')]
m={"version":1,
 "setup_cmd":"cd /verif/engine && GOFLAGS=-mod=mod GOPROXY=off GOSUMDB=off GOTOOLCHAIN=local go build -o /verif/bin/govc .",
 "hooks":{"guard":"verif","enable":"contract files <pkg>/zz_verif_contracts.go carry //go:build verif and contain only a package clause and //@ comments; govc loads /repo with -tags=verif and reads them; nothing is compiled into the library","baseline_off_cmd":"cd /repo && go test -vet=off -count=1 ./...","source_commits":hook_commits,"add_only":True},
 "engines":[{"name":"govc","path":"/verif/engine","serves_properties":sorted(claims.keys()),"kind_free_text":"self-written verification-condition generator over go/ssa (symbolic execution of the real functions against //@ contracts; loops cut at invariants, calls replaced by callee contracts); obligations discharged by z3 4.8.12 / z3 5.1.0 / cvc5 1.0.3 raced per obligation"}],
 "checks":[],"notes":"See DESIGN.md. ./check <id> [--tier quick|thorough] is the only entry point.","not_applicable":[]}
na=json.load(open('/verif/tools/not_applicable.json'))
for p in props:
    pid=p['id']
    if pid in claims:
        c=claims[pid]
        m["checks"].append({"property_id":pid,"quick_cmd":f"./check {pid} --tier quick","thorough_cmd":f"./check {pid} --tier thorough",
          "evidence_file":f"/verif/evidence/{pid}.json","replay_cmd_template":"./check --replay {path}","engine":"govc",
          "level_claimed":{"category":"proof","text":c["text"],"design_ref":c.get("design_ref","DESIGN.md §4 "+pid)},
          "level_note":c["note"],"technique":c.get("technique","contract-based deductive verification: VCs generated from go/ssa of the real functions against //@ contracts, discharged by z3/cvc5")})
    else:
        m["not_applicable"].append({"property_id":pid,"reason":na.get(pid,"no check registered yet: contracts for the functions this property depends on are still being written (DESIGN.md §4 "+pid+")")})
json.dump(m,open('/verif/MANIFEST.json','w'),indent=1)
print(len(m["checks"]),"checks",len(m["not_applicable"]),"n/a")
