package main

import (
	"fmt"
	"os"
	"go/constant"
	"go/token"
	"go/types"
	"sort"
	"strings"

	"golang.org/x/tools/go/ssa"
)

type State struct {
	heap  map[string]string
	alloc string
	ghost map[string]string
	ph    *phInfo // placeholder state used while building the defining axiom of an opaque predicate
}

type phInfo struct {
	heaps  map[string]bool
	ghosts map[string]bool
}

func (s *State) clone() *State {
	n := &State{heap: map[string]string{}, alloc: s.alloc, ghost: map[string]string{}}
	for k, v := range s.heap {
		n.heap[k] = v
	}
	for k, v := range s.ghost {
		n.ghost[k] = v
	}
	return n
}

type Obligation struct {
	Func   string
	Name   string // full stable name  pkg.func/kind#n[:label]
	Kind   string
	Label  string
	Tags   []string
	Prefix int // number of global assertions visible
	PC     string
	Goal   string // Bool term that must hold
	Pos    token.Position
	Canary bool // vacuity canary: must NOT be provable
	vc     *VC
	Info   string
	Splits []string // case-split literals (append in-place flags on the path): tried when the whole goal is not decided
	Extra  string   // extra assertions for a split case
	Unsliced bool   // second attempt: all hypotheses, no relevance slicing
}

type edge struct {
	pc string
	st *State
}

type VC struct {
	w    *World
	fn   *ssa.Function
	fc   *FuncContract
	enc  *Enc
	pkg  *types.Package
	name string

	decls   []string
	asserts []string
	obls    []*Obligation

	vals   map[ssa.Value]string
	tuples map[ssa.Value][]string
	entry  *State

	edges    map[[2]int]*edge
	blockPC  map[int]string
	blockSt  map[int]*State
	loopHead map[int]*loopInfo
	loopOrd  map[int]int

	debugVars map[string][]debugDef // source var name -> definitions
	ordinals  map[string]int
	fresh     int
	globals   map[*ssa.Global]int
	unsup     string
	curBlock  *ssa.BasicBlock
	curPC     string
	curSt     *State
	callCount map[string]int
	lockHeld  string // ghost name for mutex state, unused when empty
	deferred  []*ssa.Defer
	params    map[string]SpecVal
	results   []SpecVal
	assumed   map[string]bool // names of trusted contracts / axioms used
	mapRanges map[ssa.Value]*mapRange
	guarded   map[ssa.Value]*Guard
	renames   map[string]string
	curState  *State
	defTags   []string

	havocEverythingSeen bool
	unknownCalls        []string
	usedLemmas          map[string]bool
	explicitAssumes     []string
	axiomTerms          []axiomTerm
	relevantGI          map[*GlobalInv]bool
	assignsCache        map[string]assignsInfo
	deferPC             []string
	usedFns             map[string]bool
	axiomAsserts        []string
	funcRegs            []region
	funcRegsAll         bool
	funcRegsDone        bool
	labels              map[string]*stateLabel
	splitLits           []string
	opaquePreds         map[string]*opaqueInfo
	noSlice             bool
	callOrds            map[ssa.Instruction]int
	undefinedHeap       map[string]bool
	heapAlloc           map[string]string // havoc'd heap version -> alloc bound valid for every pointer stored in it
}

type debugDef struct {
	v     ssa.Value
	block *ssa.BasicBlock
	idx   int
	isAddr bool
}

type loopInfo struct {
	head     *ssa.BasicBlock
	body     map[int]bool
	backs    []int
	ord      int
	lc       *LoopContract
	havocSt  *State
	preSt    *State
	prePC    string
	phiTerms map[*ssa.Phi]string
	decrTerm string
	frameHeaps []string
}

func (vc *VC) freshName(prefix string) string {
	vc.fresh++
	return fmt.Sprintf("%s!%d", prefix, vc.fresh)
}

func (vc *VC) declare(name, sort string) string {
	vc.decls = append(vc.decls, fmt.Sprintf("(declare-const %s %s)", name, sort))
	return name
}

func (vc *VC) define(prefix, sort, term string) string {
	n := vc.freshName(prefix)
	vc.declare(n, sort)
	vc.asserts = append(vc.asserts, eq(n, term))
	return n
}

func (vc *VC) assume(pc, fact string) {
	if fact == "true" || fact == "" {
		return
	}
	// top-level conjunctions become separate hypotheses (finer relevance slicing)
	if strings.HasPrefix(fact, "(and ") {
		for _, part := range splitSexprArgs(fact[5 : len(fact)-1]) {
			vc.assume(pc, part)
		}
		return
	}
	vc.asserts = append(vc.asserts, implies(pc, fact))
}

// splitSexprArgs splits "a (b c) d" into its top-level s-expressions.
func splitSexprArgs(s string) []string {
	var out []string
	depth, start := 0, -1
	for i, c := range s {
		switch c {
		case '(':
			if depth == 0 && start < 0 {
				start = i
			}
			depth++
		case ')':
			depth--
			if depth == 0 {
				out = append(out, s[start:i+1])
				start = -1
			}
		case ' ', '\n':
			if depth == 0 && start >= 0 {
				out = append(out, s[start:i])
				start = -1
			}
		default:
			if depth == 0 && start < 0 {
				start = i
			}
		}
	}
	if start >= 0 {
		out = append(out, s[start:])
	}
	return out
}

func (vc *VC) tagsFor(c *Clause) []string {
	if c != nil && len(c.Tags) > 0 {
		return c.Tags
	}
	return vc.defTags
}

func (vc *VC) oblige(kind, label string, pc, goal string, tags []string, pos token.Pos, info string) *Obligation {
	// a conjunction is proved conjunct by conjunct (smaller relevant slices, more parallelism)
	if parts := splitGoal(goal); len(parts) > 1 && kind != "canary" {
		var last *Obligation
		for i, g := range parts {
			l := label
			if l == "" {
				l = fmt.Sprintf("part%d", i+1)
			} else {
				l = fmt.Sprintf("%s.%d", label, i+1)
			}
			last = vc.obligeOne(kind, l, pc, g, tags, pos, info)
		}
		return last
	}
	return vc.obligeOne(kind, label, pc, goal, tags, pos, info)
}

// splitGoal splits (and A B) and (=> P (and A B)) into conjunct goals.
func splitGoal(goal string) []string {
	if strings.HasPrefix(goal, "(and ") {
		var out []string
		for _, p := range splitSexprArgs(goal[5 : len(goal)-1]) {
			out = append(out, splitGoal(p)...)
		}
		return out
	}
	if strings.HasPrefix(goal, "(=> ") {
		args := splitSexprArgs(goal[4 : len(goal)-1])
		if len(args) == 2 {
			sub := splitGoal(args[1])
			if len(sub) > 1 {
				var out []string
				for _, g := range sub {
					out = append(out, implies(args[0], g))
				}
				return out
			}
		}
	}
	return []string{goal}
}

func (vc *VC) obligeOne(kind, label string, pc, goal string, tags []string, pos token.Pos, info string) *Obligation {
	key := kind
	vc.ordinals[key]++
	name := fmt.Sprintf("%s/%s#%d", vc.name, kind, vc.ordinals[key])
	if label != "" {
		name += ":" + label
	}
	if tags == nil {
		tags = vc.defTags
	}
	o := &Obligation{Func: vc.name, Name: name, Kind: kind, Label: label, Tags: tags, Prefix: len(vc.asserts), PC: pc, Goal: goal, vc: vc, Info: info}
	if n := len(vc.splitLits); n > 0 {
		lo := n - 2
		if lo < 0 {
			lo = 0
		}
		o.Splits = append([]string{}, vc.splitLits[lo:]...)
	}
	if pos.IsValid() {
		o.Pos = vc.w.prog.Fset.Position(pos)
	}
	vc.obls = append(vc.obls, o)
	return o
}

// Script renders the SMT-LIB2 script for one obligation: unsat = discharged.
func (o *Obligation) Script(produceModels bool) string {
	vc := o.vc
	var b strings.Builder
	if produceModels {
		b.WriteString("(set-option :produce-models true)\n")
	}
	b.WriteString(prelude)
	b.WriteString("(declare-const fn_nil Fn)\n")
	b.WriteString(vc.enc.Decls())
	for _, d := range vc.decls {
		b.WriteString(d)
		b.WriteString("\n")
	}
	// relevance slice of the hypotheses (sound: only drops assumptions)
	declared := map[string]bool{}
	for _, line := range append(append([]string{}, vc.enc.extraDecls...), vc.decls...) {
		f := strings.Fields(line)
		if len(f) >= 2 && (f[0] == "(declare-const" || f[0] == "(declare-fun") {
			declared[f[1]] = true
		}
	}
	goalText := o.PC + " " + o.Goal + " " + o.Extra
	hyps := vc.asserts[:o.Prefix]
	var rfam map[string]bool
	if !o.Canary && !o.Unsliced && !vc.noSlice && os.Getenv("GOVC_NOSLICE") == "" {
		hyps, rfam = sliceHyps(hyps, vc.axiomAsserts, goalText, declared)
	}
	// heap well-typedness: every cell of every (relevant) heap version satisfies its type invariant
	for _, line := range append(append([]string{}, vc.enc.extraDecls...), vc.decls...) {
		if !strings.HasPrefix(line, "(declare-const H_") {
			continue
		}
		f := strings.Fields(line)
		hv := f[1]
		hn := hv
		if i := strings.Index(hv, "!"); i >= 0 {
			hn = hv[:i]
		}
		if rfam != nil && !rfam[hn] {
			continue
		}
		t, ok := vc.enc.heapTypes[hn]
		if !ok {
			continue
		}
		sel := "(select " + hv + " l!t)"
		bound := vc.heapAlloc[hv]
		if strings.HasSuffix(hv, "!0") {
			bound = "alloc!0"
		}
		if bound == "" && !vc.undefinedHeap[hv] {
			continue // defined by stores / ite over typed versions: typing follows
		}
		var inv string
		switch u := t.Underlying().(type) {
		case *types.Slice:
			inv = sx("valid_slice", sel)
			if bound != "" {
				inv = and(inv, sx("<", sx("s_arr", sel), bound))
			}
		case *types.Basic:
			if u.Info()&types.IsInteger != 0 {
				lo, hi := intRange(u)
				inv = and(sx("<=", lo, sel), sx("<=", sel, hi))
			}
		case *types.Interface:
			// only for unexported repo interfaces whose implementers are all pointers (propertySet):
			// a pointer stored in such a cell points to an allocated object. Typing axioms on every
			// interface heap proved far too expensive (thousands of useless instances).
			nm, isNamed := t.(*types.Named)
			if bound != "" && vc.enc.boxes["Loc"] && isNamed && nm.Obj().Pkg() != nil && vc.w.isRepoPkg(nm.Obj().Pkg()) && !nm.Obj().Exported() && u.NumMethods() > 0 {
				var ptrs []string
				for _, tn := range vc.enc.typeOrder {
					gt := vc.enc.typeConsts[tn]
					if _, isPtr := gt.Underlying().(*types.Pointer); isPtr && types.Implements(gt, u) {
						ptrs = append(ptrs, eq(sx("i_dyn", sel), tn))
					}
				}
				if len(ptrs) > 0 {
					inv = implies(or(ptrs...), sx("<", sx("l_base", sx("unbox_Loc", sx("i_val", sel))), bound))
				}
			}
			// canonical nil: a nil interface cell has the nil payload (fires only where the payload is inspected)
			fmt.Fprintf(&b, "(assert (forall ((l!t Loc)) (! (=> (= (i_dyn %s) T_nil) (= (i_val %s) any_nil)) :pattern ((i_val %s)))))\n", sel, sel, sel)
		case *types.Pointer, *types.Map:
			if bound != "" {
				inv = or(eq(sel, nilLoc), and(sx("<", "0", sx("l_base", sel)), sx("<", sx("l_base", sel), bound)))
			}
		}
		if inv != "" && inv != "true" {
			// demand-driven triggers: fire only where a component of the cell is already being looked at
			pats := ":pattern (" + sel + ")"
			switch t.Underlying().(type) {
			case *types.Slice:
				pats = fmt.Sprintf(":pattern ((s_len %s)) :pattern ((s_cap %s)) :pattern ((s_arr %s)) :pattern ((s_off %s))", sel, sel, sel, sel)
			case *types.Interface:
				pats = fmt.Sprintf(":pattern ((unbox_Loc (i_val %s)))", sel)
			case *types.Pointer, *types.Map:
				pats = fmt.Sprintf(":pattern ((l_base %s))", sel)
			}
			fmt.Fprintf(&b, "(assert (forall ((l!t Loc)) (! %s %s)))\n", inv, pats)
		}
	}
	for _, a := range vc.axiomAsserts {
		b.WriteString("(assert ")
		b.WriteString(a)
		b.WriteString(")\n")
	}
	for _, a := range hyps {
		b.WriteString("(assert ")
		b.WriteString(a)
		b.WriteString(")\n")
	}
	b.WriteString("(assert ")
	b.WriteString(o.PC)
	b.WriteString(")\n")
	if !o.Canary {
		b.WriteString("(assert ")
		b.WriteString(not(o.Goal))
		b.WriteString(")\n")
	}
	b.WriteString(o.Extra)
	if strings.Contains(b.String(), "(nlmul ") {
		b.WriteString(nlmulAxiom)
	}
	b.WriteString("(check-sat)\n")
	return b.String()
}

// ---------------------------------------------------------------------------

func shortFuncName(fn *ssa.Function) string {
	var p *types.Package
	if fn.Pkg != nil {
		p = fn.Pkg.Pkg
	} else if recv := fn.Signature.Recv(); recv != nil {
		p = pkgOfType(recv.Type())
	}
	if p == nil {
		return fn.String()
	}
	return p.Name() + "." + fn.RelString(p)
}

func (w *World) NewVC(fn *ssa.Function, fc *FuncContract) *VC {
	vc := &VC{w: w, fn: fn, fc: fc, enc: NewEnc(w), name: shortFuncName(fn),
		vals: map[ssa.Value]string{}, tuples: map[ssa.Value][]string{},
		edges: map[[2]int]*edge{}, blockPC: map[int]string{}, blockSt: map[int]*State{},
		loopHead: map[int]*loopInfo{}, debugVars: map[string][]debugDef{}, ordinals: map[string]int{},
		globals: map[*ssa.Global]int{}, callCount: map[string]int{}, params: map[string]SpecVal{}, assumed: map[string]bool{},
		mapRanges: map[ssa.Value]*mapRange{}, guarded: map[ssa.Value]*Guard{}, usedLemmas: map[string]bool{}, usedFns: map[string]bool{}, labels: map[string]*stateLabel{}, opaquePreds: map[string]*opaqueInfo{}, heapAlloc: map[string]string{}, undefinedHeap: map[string]bool{}}
	if fn.Pkg != nil {
		vc.pkg = fn.Pkg.Pkg
	} else if recv := fn.Signature.Recv(); recv != nil {
		vc.pkg = pkgOfType(recv.Type())
	}
	if fc != nil {
		vc.defTags = fc.Tags
	}
	return vc
}

func (vc *VC) heapGet(st *State, name string) string {
	if st.ph != nil {
		st.ph.heaps[name] = true
		return "h!" + name
	}
	if t, ok := st.heap[name]; ok {
		return t
	}
	n := name + "!0"
	if !vc.enc.declared[n] {
		vc.enc.Declare(n, fmt.Sprintf("(declare-const %s (Array Loc %s))", n, vc.enc.heaps[name]))
	}
	return n
}

func (vc *VC) ghostGet(st *State, name string) string {
	if st.ph != nil {
		st.ph.ghosts[name] = true
		return "g!" + name
	}
	if t, ok := st.ghost[name]; ok {
		return t
	}
	g := vc.w.cs.GhostByNm[name]
	n := "G_" + name + "!0"
	if !vc.enc.declared[n] {
		vc.enc.Declare(n, fmt.Sprintf("(declare-const %s %s)", n, g.Sort))
	}
	return n
}

// loadVal reads a value of Go type t at location loc (t a struct, or a leaf stored as an element/cell).
func (vc *VC) loadVal(st *State, loc string, t types.Type) string {
	if s, ok := t.Underlying().(*types.Struct); ok {
		if s.NumFields() == 0 {
			return vc.enc.structCtor(t)
		}
		args := make([]string, s.NumFields())
		for i := 0; i < s.NumFields(); i++ {
			ft := s.Field(i).Type()
			floc := sx("fldloc", loc, fmt.Sprint(i))
			if _, isStruct := ft.Underlying().(*types.Struct); isStruct {
				args[i] = vc.loadVal(st, floc, ft)
			} else {
				args[i] = vc.loadLeaf(st, vc.enc.FieldHeap(t, i), floc)
			}
		}
		return sx(vc.enc.structCtor(t), args...)
	}
	if _, ok := t.Underlying().(*types.Array); ok {
		panic(unsupported("load of array value"))
	}
	return vc.loadLeaf(st, vc.enc.HeapFor(t), loc)
}

func (vc *VC) loadLeaf(st *State, heap, loc string) string {
	return sx("select", vc.heapGet(st, heap), loc)
}

func (vc *VC) storeLeaf(st *State, heap, loc, v string) {
	cur := vc.heapGet(st, heap)
	n := vc.define(heap, fmt.Sprintf("(Array Loc %s)", vc.enc.heaps[heap]), sx("store", cur, loc, v))
	st.heap[heap] = n
}

// storeVal writes v (of Go type t) at loc, updating st in place.
func (vc *VC) storeVal(st *State, loc string, t types.Type, v string) {
	if s, ok := t.Underlying().(*types.Struct); ok {
		for i := 0; i < s.NumFields(); i++ {
			ft := s.Field(i).Type()
			floc := sx("fldloc", loc, fmt.Sprint(i))
			fv := sx(vc.enc.structSel(t, i), v)
			if _, isStruct := ft.Underlying().(*types.Struct); isStruct {
				vc.storeVal(st, floc, ft, fv)
			} else {
				vc.storeLeaf(st, vc.enc.FieldHeap(t, i), floc, fv)
			}
		}
		return
	}
	if _, ok := t.Underlying().(*types.Array); ok {
		panic(unsupported("store of array value"))
	}
	vc.storeLeaf(st, vc.enc.HeapFor(t), loc, v)
}

// ptrHeaps: the heap(s) a pointer to a non-struct cell may point into, determined from its SSA
// definition. alt.k < 0: unconditional; otherwise the alternative applies when the last field step
// of the location is k.
type heapAlt struct {
	heap string
	k    int
}

func (vc *VC) ptrHeaps(p ssa.Value, elemT types.Type) []heapAlt {
	switch x := p.(type) {
	case *ssa.FieldAddr:
		st := x.X.Type().Underlying().(*types.Pointer).Elem()
		return []heapAlt{{vc.enc.FieldHeap(st, x.Field), x.Field}}
	case *ssa.IndexAddr, *ssa.Alloc, *ssa.Global, *ssa.FreeVar:
		// a free variable of a closure is the cell of a local variable of the enclosing function
		return []heapAlt{{vc.enc.HeapFor(elemT), -1}}
	case *ssa.Phi:
		var out []heapAlt
		seen := map[string]bool{}
		for _, e := range x.Edges {
			if c, ok := e.(*ssa.Const); ok && c.Value == nil {
				continue
			}
			for _, a := range vc.ptrHeaps(e, elemT) {
				if !seen[a.heap] {
					seen[a.heap] = true
					out = append(out, a)
				}
			}
		}
		return out
	}
	panic(unsupported(fmt.Sprintf("pointer to a %s cell of unknown origin (%T)", elemT, p)))
}

func (vc *VC) loadThrough(st *State, p ssa.Value, loc string, elemT types.Type) string {
	if _, ok := elemT.Underlying().(*types.Struct); ok {
		return vc.loadVal(st, loc, elemT)
	}
	alts := vc.ptrHeaps(p, elemT)
	if len(alts) == 0 {
		panic(unsupported("load through always-nil pointer"))
	}
	t := vc.loadLeaf(st, alts[len(alts)-1].heap, loc)
	for i := len(alts) - 2; i >= 0; i-- {
		if alts[i].k < 0 {
			panic(unsupported("ambiguous pointer-to-cell origin"))
		}
		t = ite(eq(sx("mod", sx("l_path", loc), "64"), fmt.Sprint(alts[i].k+1)), vc.loadLeaf(st, alts[i].heap, loc), t)
	}
	return t
}

func (vc *VC) storeThrough(st *State, p ssa.Value, loc string, elemT types.Type, v string) {
	if _, ok := elemT.Underlying().(*types.Struct); ok {
		vc.storeVal(st, loc, elemT, v)
		return
	}
	alts := vc.ptrHeaps(p, elemT)
	if len(alts) == 1 {
		vc.storeLeaf(st, alts[0].heap, loc, v)
		return
	}
	for i, a := range alts {
		if a.k < 0 {
			panic(unsupported("ambiguous pointer-to-cell origin"))
		}
		cond := eq(sx("mod", sx("l_path", loc), "64"), fmt.Sprint(a.k+1))
		if i == len(alts)-1 {
			// last alternative takes the remaining cases
			var others []string
			for _, b := range alts[:i] {
				others = append(others, eq(sx("mod", sx("l_path", loc), "64"), fmt.Sprint(b.k+1)))
			}
			cond = not(or(others...))
		}
		cur := vc.heapGet(st, a.heap)
		n := vc.define(a.heap, fmt.Sprintf("(Array Loc %s)", vc.enc.heaps[a.heap]), ite(cond, sx("store", cur, loc, v), cur))
		st.heap[a.heap] = n
	}
}

func pathLoc(loc string, steps []int) string {
	for _, s := range steps {
		loc = sx("fldloc", loc, fmt.Sprint(s))
	}
	return loc
}

// typeInv returns the type invariant of a value of Go type t (assumed for inputs, loads, results).
func (vc *VC) typeInv(st *State, v string, t types.Type) string {
	switch u := t.Underlying().(type) {
	case *types.Basic:
		if u.Info()&types.IsInteger != 0 {
			lo, hi := intRange(u)
			return and(sx("<=", lo, v), sx("<=", v, hi))
		}
		return "true"
	case *types.Pointer, *types.Map:
		return or(eq(v, nilLoc), and(sx("<", "0", sx("l_base", v)), sx("<", sx("l_base", v), st.alloc)))
	case *types.Slice:
		return and(sx("valid_slice", v), sx("<", sx("s_arr", v), st.alloc))
	case *types.Interface:
		return implies(eq(sx("i_dyn", v), "T_nil"), eq(sx("i_val", v), "any_nil"))
	case *types.Struct:
		var cs []string
		for i := 0; i < u.NumFields(); i++ {
			cs = append(cs, vc.typeInv(st, sx(vc.enc.structSel(t, i), v), u.Field(i).Type()))
		}
		return and(cs...)
	}
	return "true"
}

func intRange(b *types.Basic) (string, string) {
	switch b.Kind() {
	case types.Int, types.Int64, types.UntypedInt:
		return "(- 9223372036854775808)", "9223372036854775807"
	case types.Int32, types.UntypedRune:
		return "(- 2147483648)", "2147483647"
	case types.Int16:
		return "(- 32768)", "32767"
	case types.Int8:
		return "(- 128)", "127"
	case types.Uint8:
		return "0", "255"
	case types.Uint16:
		return "0", "65535"
	case types.Uint32:
		return "0", "4294967295"
	case types.Uint, types.Uint64, types.Uintptr:
		return "0", "18446744073709551615"
	}
	return "(- 9223372036854775808)", "9223372036854775807"
}

// ---------------------------------------------------------------------------
// values

func (vc *VC) val(v ssa.Value) string {
	if t, ok := vc.vals[v]; ok {
		return t
	}
	switch x := v.(type) {
	case *ssa.Const:
		return vc.constTerm(x)
	case *ssa.Global:
		return vc.globalLoc(x)
	case *ssa.Function:
		n := "fn_" + vc.enc.mangle(x.String())
		vc.enc.Declare(n, fmt.Sprintf("(declare-const %s Fn)", n))
		return n
	case *ssa.Builtin:
		return "fn_nil"
	case *ssa.FreeVar:
		n := "fv_" + x.Name()
		if !vc.enc.declared[n] {
			vc.enc.Declare(n, fmt.Sprintf("(declare-const %s %s)", n, vc.enc.SortOf(x.Type())))
		}
		return n
	}
	panic(fmt.Sprintf("value %s (%T) used before definition in %s", v.Name(), v, vc.name))
}

func (vc *VC) globalLoc(g *ssa.Global) string {
	id, ok := vc.globals[g]
	if !ok {
		id = vc.w.globalID(g)
		vc.globals[g] = id
	}
	return fmt.Sprintf("(mk_loc %d 0 0)", id)
}

func (vc *VC) constTerm(c *ssa.Const) string {
	t := c.Type()
	if c.Value == nil {
		return vc.enc.Zero(t)
	}
	switch u := t.Underlying().(type) {
	case *types.Basic:
		switch {
		case u.Info()&types.IsBoolean != 0:
			if constant.BoolVal(c.Value) {
				return "true"
			}
			return "false"
		case u.Info()&types.IsInteger != 0:
			return bigLit(c.Value.ExactString())
		case u.Info()&types.IsString != 0:
			return vc.enc.StrLit(constant.StringVal(c.Value))
		}
	}
	panic(unsupported("constant of type " + t.String()))
}

func (vc *VC) setVal(v ssa.Value, term string) string {
	name := "v_" + v.Name()
	vc.declare(name, vc.enc.SortOf(v.Type()))
	vc.asserts = append(vc.asserts, eq(name, term))
	vc.vals[v] = name
	return name
}

func (vc *VC) havocVal(v ssa.Value, st *State, pc string) string {
	name := "v_" + v.Name()
	vc.declare(name, vc.enc.SortOf(v.Type()))
	vc.vals[v] = name
	vc.assume(pc, vc.typeInv(st, name, v.Type()))
	return name
}

// ---------------------------------------------------------------------------
// CFG analysis

func (vc *VC) analyseLoops() {
	fn := vc.fn
	for _, b := range fn.Blocks {
		for _, p := range b.Preds {
			if b.Dominates(p) {
				li := vc.loopHead[b.Index]
				if li == nil {
					li = &loopInfo{head: b, body: map[int]bool{b.Index: true}}
					vc.loopHead[b.Index] = li
				}
				li.backs = append(li.backs, p.Index)
				// natural loop body
				var stack []*ssa.BasicBlock
				if !li.body[p.Index] {
					li.body[p.Index] = true
					stack = append(stack, p)
				}
				for len(stack) > 0 {
					x := stack[len(stack)-1]
					stack = stack[:len(stack)-1]
					for _, q := range x.Preds {
						if !li.body[q.Index] {
							li.body[q.Index] = true
							stack = append(stack, q)
						}
					}
				}
			}
		}
	}
	// ordinals in source order
	type lp struct {
		idx  int
		pos  token.Pos
		size int
	}
	var ls []lp
	for idx, li := range vc.loopHead {
		minPos := token.Pos(1 << 40)
		for bi := range li.body {
			for _, in := range fn.Blocks[bi].Instrs {
				if _, isDbg := in.(*ssa.DebugRef); isDbg {
					if p := in.(*ssa.DebugRef).Expr.Pos(); p.IsValid() && p < minPos {
						minPos = p
					}
					continue
				}
				if _, isPhi := in.(*ssa.Phi); isPhi {
					continue // a phi carries the position of the variable's declaration, which may precede the loop
				}
				if p := in.Pos(); p.IsValid() && p < minPos {
					minPos = p
				}
			}
		}
		ls = append(ls, lp{idx, minPos, len(li.body)})
	}
	sort.Slice(ls, func(i, j int) bool {
		if ls[i].pos != ls[j].pos {
			return ls[i].pos < ls[j].pos
		}
		if ls[i].size != ls[j].size {
			return ls[i].size > ls[j].size
		}
		return ls[i].idx < ls[j].idx
	})
	for n, l := range ls {
		if os.Getenv("GOVC_LOOP_DEBUG") != "" {
			println("LOOP", vc.name, "head block", l.idx, "ord", n+1, "pos", vc.w.prog.Fset.Position(l.pos).String(), "size", l.size)
		}
		vc.loopHead[l.idx].ord = n + 1
		if vc.fc != nil {
			vc.loopHead[l.idx].lc = vc.fc.Loops[n+1]
		}
	}
}

func (vc *VC) rpo() []*ssa.BasicBlock {
	fn := vc.fn
	seen := map[int]bool{}
	var post []*ssa.BasicBlock
	var dfs func(b *ssa.BasicBlock)
	dfs = func(b *ssa.BasicBlock) {
		seen[b.Index] = true
		for _, s := range b.Succs {
			if seen[s.Index] {
				continue
			}
			dfs(s)
		}
		post = append(post, b)
	}
	dfs(fn.Blocks[0])
	// reverse
	for i, j := 0, len(post)-1; i < j; i, j = i+1, j-1 {
		post[i], post[j] = post[j], post[i]
	}
	return post
}

func (vc *VC) isBackEdge(from, to int) bool {
	li := vc.loopHead[to]
	if li == nil {
		return false
	}
	for _, b := range li.backs {
		if b == from {
			return true
		}
	}
	return false
}

// mergeStates builds the state/pc on entry of a block from forward edges.
func (vc *VC) mergeEdges(b *ssa.BasicBlock, es []*edge) (string, *State) {
	return vc.mergeNamed(fmt.Sprintf("pc_b%d", b.Index), es)
}

func (vc *VC) mergeNamed(name string, es []*edge) (string, *State) {
	if len(es) == 1 {
		return es[0].pc, es[0].st.clone()
	}
	var pcs []string
	for _, e := range es {
		pcs = append(pcs, e.pc)
	}
	pc := vc.define(name, "Bool", or(pcs...))
	st := &State{heap: map[string]string{}, ghost: map[string]string{}}
	// heaps
	names := map[string]bool{}
	for _, e := range es {
		for k := range e.st.heap {
			names[k] = true
		}
	}
	var hs []string
	for k := range names {
		hs = append(hs, k)
	}
	sort.Strings(hs)
	for _, h := range hs {
		t := vc.heapGet(es[len(es)-1].st, h)
		same := true
		for _, e := range es {
			if vc.heapGet(e.st, h) != t {
				same = false
			}
		}
		if same {
			st.heap[h] = t
			continue
		}
		for i := len(es) - 2; i >= 0; i-- {
			t = ite(es[i].pc, vc.heapGet(es[i].st, h), t)
		}
		st.heap[h] = vc.define(h, fmt.Sprintf("(Array Loc %s)", vc.enc.heaps[h]), t)
	}
	gn := map[string]bool{}
	for _, e := range es {
		for k := range e.st.ghost {
			gn[k] = true
		}
	}
	var gs []string
	for k := range gn {
		gs = append(gs, k)
	}
	sort.Strings(gs)
	for _, g := range gs {
		t := vc.ghostGet(es[len(es)-1].st, g)
		same := true
		for _, e := range es {
			if vc.ghostGet(e.st, g) != t {
				same = false
			}
		}
		if same {
			st.ghost[g] = t
			continue
		}
		for i := len(es) - 2; i >= 0; i-- {
			t = ite(es[i].pc, vc.ghostGet(es[i].st, g), t)
		}
		st.ghost[g] = vc.define("G_"+g, vc.w.cs.GhostByNm[g].Sort, t)
	}
	a := es[len(es)-1].st.alloc
	same := true
	for _, e := range es {
		if e.st.alloc != a {
			same = false
		}
	}
	if !same {
		for i := len(es) - 2; i >= 0; i-- {
			a = ite(es[i].pc, es[i].st.alloc, a)
		}
		a = vc.define("alloc", "Int", a)
	}
	st.alloc = a
	return pc, st
}

// Generate runs symbolic execution over the function and returns obligations.
func (vc *VC) Generate() (err error) {
	defer func() {
		if r := recover(); r != nil {
			if u, ok := r.(unsupportedErr); ok {
				vc.unsup = u.msg
				err = fmt.Errorf("unsupported: %s", u.msg)
				return
			}
			if se, ok := r.(specErr); ok {
				vc.unsup = "contract-binding: " + se.msg
				err = fmt.Errorf("contract-binding: %s", se.msg)
				return
			}
			panic(r)
		}
	}()
	fn := vc.fn
	if fn.Blocks == nil {
		return fmt.Errorf("no body")
	}
	// fn.Recover (present whenever the function defers) is where control resumes after a recovered panic.
	// Every panic site of the function carries its own obligation, so the block is dead in verified code;
	// it has no predecessor and is never executed here. A `recover()` call itself stays unsupported.
	vc.analyseLoops()
	vc.collectDebug()

	// entry state
	vc.declare("alloc!0", "Int")
	st := &State{heap: map[string]string{}, ghost: map[string]string{}, alloc: "alloc!0"}
	vc.entry = st.clone()
	vc.asserts = append(vc.asserts, sx(">", "alloc!0", fmt.Sprint(vc.w.numGlobals()+1)))
	for i, p := range fn.Params {
		pn := p.Name()
		if vc.fc != nil && len(vc.fc.Params) == len(fn.Params) {
			pn = vc.fc.Params[i] // contract-declared names (synthesized wrappers have no source names)
		}
		name := fmt.Sprintf("p_%s", pn)
		if pn == "" || pn == "_" {
			name = fmt.Sprintf("p_arg%d", i)
		}
		vc.declare(name, vc.enc.SortOf(p.Type()))
		vc.vals[p] = name
		vc.assume("true", vc.typeInv(st, name, p.Type()))
		vc.params[pn] = SpecVal{T: name, Sort: vc.enc.SortOf(p.Type()), GoT: p.Type()}
	}
	for _, fv := range fn.FreeVars {
		_ = vc.val(fv)
	}
	if fn.Synthetic == "package initializer" && fn.Pkg != nil {
		// the package's variables hold their zero values when its initializer starts (Go spec)
		var names []string
		for n, m := range fn.Pkg.Members {
			if g, ok := m.(*ssa.Global); ok && g.Name() != "init$guard" {
				names = append(names, n)
			}
		}
		sort.Strings(names)
		for _, n := range names {
			g := fn.Pkg.Members[n].(*ssa.Global)
			gt := g.Type().Underlying().(*types.Pointer).Elem()
			for _, lf := range vc.enc.Leaves(gt) {
				vc.assume("true", eq(sx("select", vc.heapGet(st, lf.heap), pathLoc(vc.globalLoc(g), lf.steps)), vc.enc.Zero(lf.t)))
			}
		}
	}
	vc.assumeGlobalInvs(st, "true")
	vc.assumeAxioms()
	if vc.fc != nil {
		for _, c := range vc.fc.Requires {
			env := vc.baseEnv(st, st)
			vc.assume("true", vc.evalBool(c.Expr, env))
		}
		for _, c := range vc.fc.Entry {
			vc.applyHint(c, vc.baseEnv(st, st), "true")
		}
	}
	// vacuity canary on the precondition
	cn := vc.oblige("canary", "requires", "true", "false", nil, fn.Pos(), "precondition must be satisfiable")
	cn.Canary = true

	order := vc.rpo()
	for _, b := range order {
		var es []*edge
		for _, p := range b.Preds {
			if vc.isBackEdge(p.Index, b.Index) {
				continue
			}
			if e := vc.edges[[2]int{p.Index, b.Index}]; e != nil {
				es = append(es, e)
			}
		}
		var pc string
		var bst *State
		if b.Index == 0 {
			pc, bst = "true", st
		} else {
			if len(es) == 0 {
				continue // unreachable
			}
			pc, bst = vc.mergeEdges(b, es)
		}
		if li := vc.loopHead[b.Index]; li != nil {
			pc, bst = vc.enterLoop(li, b, es, pc, bst)
		} else {
			// phis
			for _, in := range b.Instrs {
				phi, ok := in.(*ssa.Phi)
				if !ok {
					break
				}
				vc.setVal(phi, vc.phiTerm(phi, b, false))
			}
		}
		vc.blockPC[b.Index] = pc
		vc.blockSt[b.Index] = bst
		vc.execBlock(b, pc, bst)
	}
	return nil
}

func (vc *VC) phiTerm(phi *ssa.Phi, b *ssa.BasicBlock, entryOnly bool) string {
	var t string
	first := true
	for i := len(b.Preds) - 1; i >= 0; i-- {
		p := b.Preds[i]
		if vc.isBackEdge(p.Index, b.Index) {
			continue
		}
		e := vc.edges[[2]int{p.Index, b.Index}]
		if e == nil {
			continue
		}
		v := vc.val(phi.Edges[i])
		if first {
			t = v
			first = false
		} else {
			t = ite(e.pc, v, t)
		}
	}
	return t
}

func (vc *VC) collectDebug() {
	for _, b := range vc.fn.Blocks {
		for i, in := range b.Instrs {
			if d, ok := in.(*ssa.DebugRef); ok {
				if obj, ok := d.Object().(*types.Var); ok && obj != nil {
					vc.debugVars[obj.Name()] = append(vc.debugVars[obj.Name()], debugDef{d.X, b, i, d.IsAddr})
				}
			}
		}
	}
}

func (vc *VC) execBlock(b *ssa.BasicBlock, pc string, st *State) {
	vc.curBlock = b
	for _, in := range b.Instrs {
		if _, ok := in.(*ssa.Phi); ok {
			continue
		}
		vc.curPC, vc.curSt = pc, st
		vc.execInstr(in, pc, st)
	}
}

func (vc *VC) addEdge(from *ssa.BasicBlock, to *ssa.BasicBlock, pc string, st *State) {
	if vc.isBackEdge(from.Index, to.Index) {
		vc.closeLoop(vc.loopHead[to.Index], from, pc, st)
		return
	}
	n := vc.define(fmt.Sprintf("e_%d_%d", from.Index, to.Index), "Bool", pc)
	vc.edges[[2]int{from.Index, to.Index}] = &edge{n, st.clone()}
}
