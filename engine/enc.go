package main

import (
	"fmt"
	"go/types"
	"sort"
	"strings"
)

// Enc holds the per-VC-script declarations: sorts for struct types, heap
// arrays, type constants, string literals, uninterpreted helpers.
type Enc struct {
	w *World

	structSort  map[string]string // canonical type string -> sort name
	structDecls []string          // datatype declarations in dependency order
	structInfo  map[string]*types.Struct

	heaps     map[string]string // heap name -> element sort
	heapTypes map[string]types.Type
	heapOrder []string

	typeConsts map[string]types.Type // T_xxx -> Go type
	typeOrder  []string

	strLits  map[string]string // literal -> const name
	strOrder []string

	boxes map[string]bool // sorts with box/unbox declared

	implPreds map[string]*types.Interface // impl_<name> -> iface
	implOrder []string

	extraDecls []string // declare-fun for spec functions etc (in order)
	declared   map[string]bool

	mangleMap map[string]string
	mangleUse map[string]string
}

func NewEnc(w *World) *Enc {
	return &Enc{
		w:          w,
		structSort: map[string]string{}, structInfo: map[string]*types.Struct{},
		heaps: map[string]string{}, heapTypes: map[string]types.Type{}, typeConsts: map[string]types.Type{},
		strLits: map[string]string{}, boxes: map[string]bool{},
		implPreds: map[string]*types.Interface{}, declared: map[string]bool{},
		mangleMap: map[string]string{}, mangleUse: map[string]string{},
	}
}

func shortQual(p *types.Package) string { return p.Name() }

func typeStr(t types.Type) string {
	t = types.Unalias(t)
	if it, ok := t.(*types.Interface); ok && it.NumMethods() == 0 {
		return "interface{}"
	}
	return types.TypeString(t, shortQual)
}

func (e *Enc) mangle(s string) string {
	if m, ok := e.mangleMap[s]; ok {
		return m
	}
	var b strings.Builder
	for _, c := range s {
		switch {
		case c >= 'a' && c <= 'z', c >= 'A' && c <= 'Z', c >= '0' && c <= '9', c == '_':
			b.WriteRune(c)
		case c == '*':
			b.WriteString("p_")
		case c == '[':
			b.WriteString("s")
		case c == ']':
			b.WriteString("_")
		case c == '.':
			b.WriteString("_")
		case c == ' ':
		default:
			b.WriteString("_")
		}
	}
	m := b.String()
	if len(m) > 60 {
		m = m[:60]
	}
	base := m
	for i := 2; ; i++ {
		if prev, used := e.mangleUse[m]; !used || prev == s {
			break
		}
		m = fmt.Sprintf("%s_%d", base, i)
	}
	e.mangleUse[m] = s
	e.mangleMap[s] = m
	return m
}

// SortOf returns the SMT sort for a Go type.
func (e *Enc) SortOf(t types.Type) string {
	switch u := t.Underlying().(type) {
	case *types.Basic:
		switch {
		case u.Info()&types.IsBoolean != 0:
			return "Bool"
		case u.Info()&types.IsInteger != 0:
			return "Int"
		case u.Info()&types.IsString != 0:
			return "Str"
		case u.Kind() == types.UnsafePointer:
			return "Loc"
		case u.Kind() == types.UntypedNil:
			return "Loc"
		case u.Info()&types.IsFloat != 0:
			return "Real"
		}
		panic(unsupported("basic type " + u.String()))
	case *types.Pointer:
		return "Loc"
	case *types.Slice:
		return "Slice"
	case *types.Interface:
		return "Iface"
	case *types.Map:
		return "Loc"
	case *types.Signature:
		return "Fn"
	case *types.Struct:
		return e.structSortOf(t, u)
	case *types.Tuple:
		panic(unsupported("tuple sort"))
	case *types.Array:
		panic(unsupported("array value " + t.String()))
	case *types.Chan:
		panic(unsupported("chan"))
	}
	panic(unsupported("type " + t.String()))
}

type unsupportedErr struct{ msg string }

func unsupported(msg string) unsupportedErr { return unsupportedErr{msg} }

func (e *Enc) structSortOf(t types.Type, st *types.Struct) string {
	key := typeStr(t)
	if s, ok := e.structSort[key]; ok {
		return s
	}
	name := "S_" + e.mangle(key)
	e.structSort[key] = name
	e.structInfo[name] = st
	// declare nested first
	var fields []string
	for i := 0; i < st.NumFields(); i++ {
		f := st.Field(i)
		fs := e.SortOf(f.Type())
		fields = append(fields, fmt.Sprintf("(%s (%s__%d %s))", "", name, i, fs))
		_ = f
	}
	var fb strings.Builder
	for i := 0; i < st.NumFields(); i++ {
		fs := e.SortOf(st.Field(i).Type())
		fmt.Fprintf(&fb, " (%s__%d %s)", name, i, fs)
	}
	if st.NumFields() == 0 {
		e.structDecls = append(e.structDecls, fmt.Sprintf("(declare-datatypes ((%s 0)) (((mk_%s))))", name, name))
	} else {
		e.structDecls = append(e.structDecls, fmt.Sprintf("(declare-datatypes ((%s 0)) (((mk_%s%s))))", name, name, fb.String()))
	}
	return name
}

func (e *Enc) structCtor(t types.Type) string {
	return "mk_" + e.SortOf(t)
}

func (e *Enc) structSel(t types.Type, i int) string {
	return fmt.Sprintf("%s__%d", e.SortOf(t), i)
}

// HeapFor returns the heap array holding cells of leaf Go type t that are NOT struct fields:
// slice/array elements, address-taken locals, package-level variables.
func (e *Enc) HeapFor(t types.Type) string {
	if _, ok := t.Underlying().(*types.Struct); ok {
		panic("HeapFor on struct type " + t.String())
	}
	name := "H_e_" + e.mangle(typeStr(t))
	if _, ok := e.heaps[name]; !ok {
		e.heaps[name] = e.SortOf(t)
		e.heapTypes[name] = t
		e.heapOrder = append(e.heapOrder, name)
	}
	return name
}

// FieldHeap returns the heap array of field i of struct type st (field-split heap): every object
// or sub-object of type st keeps that field in this array, at fldloc(location of the struct, i).
func (e *Enc) FieldHeap(st types.Type, i int) string {
	s := st.Underlying().(*types.Struct)
	f := s.Field(i)
	name := "H_" + e.mangle(typeStr(st)+"."+f.Name())
	if _, ok := e.heaps[name]; !ok {
		e.heaps[name] = e.SortOf(f.Type())
		e.heapTypes[name] = f.Type()
		e.heapOrder = append(e.heapOrder, name)
	}
	return name
}

// leaf: one non-struct cell inside a value of some type: the field steps leading to it, its type, its heap
type leaf struct {
	steps []int
	t     types.Type
	heap  string
}

// Leaves enumerates the leaf cells of a value of type t stored at some location.
func (e *Enc) Leaves(t types.Type) []leaf {
	if s, ok := t.Underlying().(*types.Struct); ok {
		var out []leaf
		for i := 0; i < s.NumFields(); i++ {
			ft := s.Field(i).Type()
			if _, isStruct := ft.Underlying().(*types.Struct); isStruct {
				for _, l := range e.Leaves(ft) {
					out = append(out, leaf{append([]int{i}, l.steps...), l.t, l.heap})
				}
			} else {
				out = append(out, leaf{[]int{i}, ft, e.FieldHeap(t, i)})
			}
		}
		return out
	}
	return []leaf{{nil, t, e.HeapFor(t)}}
}

// TypeConst returns the Type constant for a concrete Go type.
func (e *Enc) TypeConst(t types.Type) string {
	if b, ok := t.(*types.Basic); ok && b.Kind() == types.UntypedNil {
		return "T_nil"
	}
	// normalise aliases: byte=uint8, rune=int32 are identical types already
	key := typeStr(t)
	name := "T_" + e.mangle(key)
	if _, ok := e.typeConsts[name]; !ok {
		e.typeConsts[name] = t
		e.typeOrder = append(e.typeOrder, name)
	}
	return name
}

func (e *Enc) StrLit(s string) string {
	if s == "" {
		return "str_empty"
	}
	if n, ok := e.strLits[s]; ok {
		return n
	}
	n := fmt.Sprintf("str_%d", len(e.strLits)+1)
	e.strLits[s] = n
	e.strOrder = append(e.strOrder, s)
	return n
}

func (e *Enc) Box(sort, v string) string {
	e.boxes[sort] = true
	return sx("box_"+sort, v)
}

func (e *Enc) Unbox(sort, v string) string {
	e.boxes[sort] = true
	return sx("unbox_"+sort, v)
}

func (e *Enc) ImplPred(name string, it *types.Interface) string {
	p := "impl_" + e.mangle(name)
	if _, ok := e.implPreds[p]; !ok {
		e.implPreds[p] = it
		e.implOrder = append(e.implOrder, p)
	}
	return p
}

func (e *Enc) Declare(name, decl string) {
	if e.declared[name] {
		return
	}
	e.declared[name] = true
	e.extraDecls = append(e.extraDecls, decl)
}

// Decls renders every declaration that has been requested so far.
func (e *Enc) Decls() string {
	var b strings.Builder
	for _, d := range e.structDecls {
		b.WriteString(d)
		b.WriteString("\n")
	}
	var bs []string
	for s := range e.boxes {
		bs = append(bs, s)
	}
	sort.Strings(bs)
	for _, s := range bs {
		fmt.Fprintf(&b, "(declare-fun box_%s (%s) Any)\n(declare-fun unbox_%s (Any) %s)\n", s, s, s, s)
		fmt.Fprintf(&b, "(assert (forall ((x %s)) (! (= (unbox_%s (box_%s x)) x) :pattern ((box_%s x)))))\n", s, s, s, s)
	}
	for _, t := range e.typeOrder {
		fmt.Fprintf(&b, "(declare-const %s Type)\n", t)
	}
	if len(e.typeOrder) > 0 {
		fmt.Fprintf(&b, "(assert (distinct T_nil %s))\n", strings.Join(e.typeOrder, " "))
	}
	for _, p := range e.implOrder {
		fmt.Fprintf(&b, "(declare-fun %s (Type) Bool)\n", p)
		fmt.Fprintf(&b, "(assert (not (%s T_nil)))\n", p)
		it := e.implPreds[p]
		// an interface with an unexported method can only be implemented inside its package: closed world
		closed := false
		for i := 0; i < it.NumMethods(); i++ {
			if !it.Method(i).Exported() {
				closed = true
			}
		}
		if closed {
			var impls []string
			for _, tn := range e.typeOrder {
				if types.Implements(e.typeConsts[tn], it) {
					impls = append(impls, "(= t!c "+tn+")")
				}
			}
			// make sure every implementer in the defining package has a constant
			alts := "false"
			if len(impls) == 1 {
				alts = impls[0]
			} else if len(impls) > 1 {
				alts = "(or " + strings.Join(impls, " ") + ")"
			}
			fmt.Fprintf(&b, "(assert (forall ((t!c Type)) (! (=> (%s t!c) %s) :pattern ((%s t!c)))))\n", p, alts, p)
		}
		for _, tn := range e.typeOrder {
			gt := e.typeConsts[tn]
			if types.Implements(gt, it) {
				fmt.Fprintf(&b, "(assert (%s %s))\n", p, tn)
			} else {
				fmt.Fprintf(&b, "(assert (not (%s %s)))\n", p, tn)
			}
		}
	}
	// string literals: lengths, bytes (short ones), pairwise distinct
	var names []string
	for _, s := range e.strOrder {
		n := e.strLits[s]
		names = append(names, n)
		fmt.Fprintf(&b, "(declare-const %s Str) ; %q\n", n, s)
		fmt.Fprintf(&b, "(assert (= (slen %s) %d))\n", n, len(s))
		if len(s) <= 24 {
			for i := 0; i < len(s); i++ {
				fmt.Fprintf(&b, "(assert (= (sat %s %d) %d))\n", n, i, s[i])
			}
		}
	}
	if len(names) > 1 {
		fmt.Fprintf(&b, "(assert (distinct %s))\n", strings.Join(names, " "))
	}
	for _, d := range e.extraDecls {
		b.WriteString(d)
		b.WriteString("\n")
	}
	if e.declared["comparable_t"] {
		for _, tn := range e.typeOrder {
			if types.Comparable(e.typeConsts[tn]) {
				fmt.Fprintf(&b, "(assert (comparable_t %s))\n", tn)
			} else {
				fmt.Fprintf(&b, "(assert (not (comparable_t %s)))\n", tn)
			}
		}
	}
	return b.String()
}

// zero value of a Go type as an SMT term
func (e *Enc) Zero(t types.Type) string {
	switch u := t.Underlying().(type) {
	case *types.Basic:
		switch {
		case u.Info()&types.IsBoolean != 0:
			return "false"
		case u.Info()&types.IsInteger != 0:
			return "0"
		case u.Info()&types.IsString != 0:
			return "str_empty"
		}
		return nilLoc
	case *types.Pointer, *types.Map:
		return nilLoc
	case *types.Slice:
		return nilSlice
	case *types.Interface:
		return nilIface
	case *types.Signature:
		return "fn_nil"
	case *types.Struct:
		if u.NumFields() == 0 {
			return e.structCtor(t)
		}
		var args []string
		for i := 0; i < u.NumFields(); i++ {
			args = append(args, e.Zero(u.Field(i).Type()))
		}
		return sx(e.structCtor(t), args...)
	}
	panic(unsupported("zero of " + t.String()))
}
