package main

import (
	"flag"
	"fmt"
	"go/types"
	"os"
	"sort"
	"strings"

	"golang.org/x/tools/go/ssa"
)

func (w *World) signatureFor(fc *FuncContract) (*types.Signature, types.Type) {
	// iface contract "Iface.Method": find the interface type in fc.Pkg
	if fc.IsIface {
		parts := strings.SplitN(fc.Name, ".", 2)
		if len(parts) != 2 {
			return nil, nil
		}
		var obj types.Object
		if fc.Pkg == "" {
			obj = types.Universe.Lookup(parts[0])
		} else if p := w.tpkgs[fc.Pkg]; p != nil {
			obj = p.Scope().Lookup(parts[0])
		}
		if obj == nil {
			return nil, nil
		}
		it, ok := obj.Type().Underlying().(*types.Interface)
		if !ok {
			return nil, nil
		}
		for i := 0; i < it.NumMethods(); i++ {
			if it.Method(i).Name() == parts[1] {
				return it.Method(i).Type().(*types.Signature), obj.Type()
			}
		}
		return nil, nil
	}
	if fn := w.fnByKey[fc.Key]; fn != nil {
		return fn.Signature, nil
	}
	return nil, nil
}

// lemmaVC builds the proof obligations of a lemma.
func (w *World) lemmaVC(lm *Lemma) *VC {
	vc := &VC{w: w, enc: NewEnc(w), name: "lemma." + lm.Name,
		vals: map[ssa.Value]string{}, tuples: map[ssa.Value][]string{}, ordinals: map[string]int{},
		globals: map[*ssa.Global]int{}, params: map[string]SpecVal{}, assumed: map[string]bool{}, usedLemmas: map[string]bool{}, usedFns: map[string]bool{},
		debugVars: map[string][]debugDef{}, callCount: map[string]int{}, labels: map[string]*stateLabel{}, opaquePreds: map[string]*opaqueInfo{}, heapAlloc: map[string]string{}, undefinedHeap: map[string]bool{}}
	vc.pkg = w.pkgForFile(lm.File)
	vc.defTags = lm.Tags
	func() {
		defer func() {
			if r := recover(); r != nil {
				if se, ok := r.(specErr); ok {
					vc.unsup = "contract-binding: " + se.msg
					return
				}
				if u, ok := r.(unsupportedErr); ok {
					vc.unsup = u.msg
					return
				}
				panic(r)
			}
		}()
		vc.declare("alloc!0", "Int")
		st := &State{heap: map[string]string{}, ghost: map[string]string{}, alloc: "alloc!0"}
		vc.entry = st
		env := &Env{vc: vc, st: st, old: st, vars: map[string]SpecVal{}, pkg: vc.pkg}
		for _, p := range lm.Params {
			gt, srt := vc.sortOfTypeExpr(p.T, env)
			n := "p_" + p.Name
			vc.declare(n, srt)
			sv := SpecVal{T: n, Sort: srt, GoT: gt}
			env.vars[p.Name] = sv
			vc.params[p.Name] = sv
			if gt != nil {
				vc.assume("true", vc.typeInv(st, n, gt))
			}
		}
		ownReq := map[string]bool{}
		for _, c := range lm.Requires {
			r := vc.evalBool(c.Expr, env)
			ownReq[r] = true
			vc.assume("true", r)
		}
		cn := vc.oblige("canary", "requires", "true", "false", nil, 0, "lemma precondition must be satisfiable")
		cn.Canary = true
		var measure string
		if lm.Decreases != nil {
			measure = vc.evalInt(lm.Decreases.Expr, env)
		}
		for _, h := range lm.Hints {
			if h.Kind == "use" {
				if call, ok := h.Expr.(SCall); ok && call.Fn == lm.Name {
					// induction hypothesis: needs a strictly smaller, non-negative measure
					if lm.Decreases == nil {
						specFail("lemma %s uses itself without a decreases clause", lm.Name)
					}
					vars := map[string]SpecVal{}
					for i, p := range lm.Params {
						gt, srt := vc.sortOfTypeExpr(p.T, env)
						a := vc.materialize(vc.eval(call.Args[i], env), env)
						vars[p.Name] = SpecVal{T: a.T, Sort: srt, GoT: gt}
					}
					n := &Env{vc: vc, st: st, old: st, vars: vars, pkg: vc.pkg}
					m2 := vc.evalInt(lm.Decreases.Expr, n)
					// the IH may be used only where its own precondition holds and the measure decreases;
					// instantiate as (req' && 0<=m2<m) ==> ens'
					var reqs, enss []string
					for _, c := range lm.Requires {
						r := vc.evalBool(c.Expr, n)
						if ownReq[r] {
							continue // identical to an assumed hypothesis of this proof
						}
						reqs = append(reqs, r)
					}
					for _, c := range lm.Ensures {
						enss = append(enss, vc.evalBool(c.Expr, n))
					}
					vc.assume("true", implies(and(append(reqs, sx("<=", "0", m2), sx("<", m2, measure))...), and(enss...)))
					continue
				}
			}
			vc.applyHint(h, env, "true")
		}
		for _, c := range lm.Ensures {
			vc.oblige("lemma", c.Label, "true", vc.evalBool(c.Expr, env), vc.tagsFor(c), 0, "lemma conclusion: "+c.Text)
		}
	}()
	return vc
}

func (vc *VC) finishAxioms() {
	// include axioms that mention a spec function used by this VC (fixpoint)
	if vc.unsup != "" {
		return
	}
	defer func() {
		if r := recover(); r != nil {
			if se, ok := r.(specErr); ok {
				vc.unsup = "contract-binding (axiom): " + se.msg
				return
			}
			panic(r)
		}
	}()
	included := map[*Axiom]bool{}
	for changed := true; changed; {
		changed = false
		for _, ax := range vc.w.cs.Axioms {
			if included[ax] {
				continue
			}
			rel := false
			for _, id := range identsOf(ax.Expr) {
				if vc.usedFns[id] {
					rel = true
				}
			}
			if !rel {
				continue
			}
			included[ax] = true
			changed = true
			env := &Env{vc: vc, st: vc.entry, old: vc.entry, vars: map[string]SpecVal{}, pkg: vc.w.pkgForFile(ax.File)}
			if env.pkg == nil {
				env.pkg = vc.pkg
			}
			vc.axiomAsserts = append(vc.axiomAsserts, vc.evalBool(ax.Expr, env))
			vc.assumed["axiom "+ax.Name] = true
		}
	}
}

func main() {
	if len(os.Args) < 2 {
		fmt.Fprintln(os.Stderr, "usage: govc <check|vc|dump|list> ...")
		os.Exit(2)
	}
	switch os.Args[1] {
	case "vc":
		cmdVC(os.Args[2:])
	case "check":
		cmdCheck(os.Args[2:])
	case "list":
		cmdList(os.Args[2:])
	case "locals":
		cmdLocals(os.Args[2:])
	default:
		fmt.Fprintln(os.Stderr, "unknown command", os.Args[1])
		os.Exit(2)
	}
}

func loadOrDie(repo string) *World {
	w, err := LoadWorld(repo, "/verif/contracts")
	if err != nil {
		fmt.Fprintln(os.Stderr, "load:", err)
		os.Exit(2)
	}
	if len(w.cs.Errors) > 0 {
		for _, e := range w.cs.Errors {
			fmt.Fprintln(os.Stderr, "contract error:", e)
		}
	}
	return w
}

func cmdList(args []string) {
	w := loadOrDie("/repo")
	for _, fn := range w.repoFunctions() {
		c := ""
		if w.contractFor(fn) != nil {
			c = " [contract]"
		}
		fmt.Printf("%s%s\n", fnKey(fn), c)
	}
}

// cmdVC: debugging aid: generate and discharge the obligations of the functions whose key contains a substring.
func cmdVC(args []string) {
	fs := flag.NewFlagSet("vc", flag.ExitOnError)
	repo := fs.String("repo", "/repo", "repository root")
	timeout := fs.Int("t", 10, "per-obligation timeout (s)")
	keep := fs.String("keep", "", "directory to keep SMT files in")
	only := fs.String("only", "", "only obligations whose name contains this")
	verbose := fs.Bool("v", false, "print solver output for failures")
	all := fs.Bool("all", false, "also functions without a contract")
	fs.Parse(args)
	w := loadOrDie(*repo)
	dir := *keep
	if dir == "" {
		d, _ := os.MkdirTemp("", "govc")
		defer os.RemoveAll(d)
		dir = d
	} else {
		os.MkdirAll(dir, 0o755)
	}
	var vcs []*VC
	for _, pat := range fs.Args() {
		if strings.HasPrefix(pat, "lemma:") {
			for _, n := range w.cs.LemmaOrder {
				if strings.Contains(n, pat[6:]) {
					vcs = append(vcs, w.lemmaVC(w.cs.Lemmas[n]))
				}
			}
			continue
		}
		for _, fn := range w.repoFunctions() {
			if strings.Contains(fnKey(fn), pat) {
				fc := w.contractFor(fn)
				if fc == nil && !*all {
					continue
				}
				if fc != nil && fc.NoBody {
					continue // assumed contract: the body is not verified
				}
				vc := w.NewVC(fn, fc)
				if err := vc.Generate(); err != nil {
					fmt.Printf("%s: %v\n", vc.name, err)
				}
				vcs = append(vcs, vc)
			}
		}
	}
	var obls []*Obligation
	for _, vc := range vcs {
		vc.finishAxioms()
		if vc.unsup != "" {
			fmt.Printf("%s: NOT VERIFIED: %s\n", vc.name, vc.unsup)
			continue
		}
		for _, c := range vc.unknownCalls {
			fmt.Printf("%s: call without contract: %s\n", vc.name, c)
		}
		for _, o := range vc.obls {
			if *only == "" || strings.Contains(o.Name, *only) {
				obls = append(obls, o)
			}
		}
	}
	res := solveAll(obls, dir, *timeout, 2, 1, 6)
	sort.SliceStable(res, func(i, j int) bool { return false })
	bad := 0
	for _, r := range res {
		mark := "ok  "
		if r.Result != "unsat" && r.Result != "ok-canary" {
			mark = "FAIL"
			bad++
		}
		fmt.Printf("%s %-9s %-8s %6.2fs %s  %s\n", mark, r.Result, r.Backend, r.Secs, r.Name, r.Pos)
		if mark == "FAIL" && *verbose {
			fmt.Println("     ", r.Info)
			fmt.Println("     ", strings.ReplaceAll(r.Output, "\n", "\n      "))
		}
	}
	fmt.Printf("%d obligations, %d not discharged\n", len(res), bad)
}
