package main

import (
	"fmt"
	"os"

	"golang.org/x/tools/go/packages"
	"golang.org/x/tools/go/ssa"
	"golang.org/x/tools/go/ssa/ssautil"
)

func main() {
	cfg := &packages.Config{Mode: packages.LoadAllSyntax, Dir: "/repo", BuildFlags: []string{"-tags=verif"}}
	pkgs, err := packages.Load(cfg, "./...")
	if err != nil {
		fmt.Println(err)
		os.Exit(2)
	}
	prog, spkgs := ssautil.AllPackages(pkgs, ssa.InstantiateGenerics|ssa.GlobalDebug)
	prog.Build()
	for _, p := range spkgs {
		if p != nil {
			fmt.Println(p.Pkg.Path(), len(p.Members))
		}
	}
}
