package main

import (
	"fmt"
	"go/types"
	"sort"

	"golang.org/x/tools/go/ssa"
)

func (vc *VC) execBuiltin(x *ssa.Call, b *ssa.Builtin, pc string, st *State) {
	args := x.Common().Args
	switch b.Name() {
	case "len":
		a := args[0]
		switch a.Type().Underlying().(type) {
		case *types.Slice:
			vc.setVal(x, sx("s_len", vc.val(a)))
		case *types.Basic:
			vc.setVal(x, sx("slen", vc.val(a)))
		case *types.Map:
			vc.guardedUse(a, pc, st, x.Pos(), "len")
			vc.setVal(x, vc.mapLen(st, a))
		default:
			panic(unsupported("len of " + a.Type().String()))
		}
	case "cap":
		vc.setVal(x, sx("s_cap", vc.val(args[0])))
	case "append":
		vc.execAppend(x, pc, st)
	case "copy":
		vc.execCopy(x, pc, st)
	default:
		panic(unsupported("builtin " + b.Name()))
	}
}

// execAppend models Go's append: in place when len+n <= cap, else a fresh backing array.
func (vc *VC) execAppend(x *ssa.Call, pc string, st *State) {
	args := x.Common().Args
	s := vc.val(args[0])
	sl, ok := args[0].Type().Underlying().(*types.Slice)
	if !ok {
		panic(unsupported("append to " + args[0].Type().String()))
	}
	if _, isStr := args[1].Type().Underlying().(*types.Basic); isStr {
		panic(unsupported("append(bytes, string...)"))
	}
	e := vc.val(args[1])
	et := sl.Elem()
	n := sx("s_len", e)
	newLen := vc.define("applen", "Int", sx("+", sx("s_len", s), n))
	inPlace := vc.define("inplace", "Bool", sx("<=", newLen, sx("s_cap", s)))
	vc.splitLits = append(vc.splitLits, inPlace)
	pre := st.clone()
	id := vc.allocID(st)
	newCap := vc.freshName("appcap")
	vc.declare(newCap, "Int")
	vc.assume(pc, and(sx(">=", newCap, newLen), sx("<=", newCap, MAXLEN)))
	vc.oblige("overflow", "append", pc, sx("<=", newLen, MAXLEN), nil, x.Pos(), "append result length within MAXLEN")
	// appending nothing to a nil slice yields nil (cap 0, len 0): in-place branch covers it (0 <= 0).
	res := ite(inPlace, sx("mk_slice", sx("s_arr", s), sx("s_off", s), newLen, sx("s_cap", s)), sx("mk_slice", id, "0", newLen, newCap))
	r := vc.setVal(x, res)
	// element addresses of the result in terms of the operand (keeps quantified facts about s[i] applicable)
	vc.assume(and(pc, inPlace), fmt.Sprintf("(forall ((i!e Int)) (! (= (elemloc %s i!e) (elemloc %s i!e)) :pattern ((elemloc %s i!e))))", r, s, r))
	// constant small element count (the usual `append(s, x)`): the in-place case is a ground store chain
	constN := -1
	if sl2, ok := args[1].(*ssa.Slice); ok && sl2.Low == nil && sl2.High == nil {
		if al, ok := sl2.X.(*ssa.Alloc); ok {
			if arr, ok := al.Type().Underlying().(*types.Pointer).Elem().Underlying().(*types.Array); ok && arr.Len() <= 4 {
				constN = int(arr.Len())
			}
		}
	}
	for _, lf := range vc.enc.Leaves(et) {
		h := lf.heap
		old := vc.heapGet(pre, h)
		if constN >= 0 {
			// in place: stores; fresh: quantified copy into the new array
			ipH := old
			for k := 0; k < constN; k++ {
				src := sx("select", old, pathLoc(sx("elemloc", e, fmt.Sprint(k)), lf.steps))
				dst := pathLoc(sx("mk_loc", sx("s_arr", s), sx("+", sx("s_off", s), sx("s_len", s), fmt.Sprint(k)), "0"), lf.steps)
				ipH = sx("store", ipH, dst, src)
			}
			nhf := vc.freshName(h + "!re")
			vc.declare(nhf, fmt.Sprintf("(Array Loc %s)", vc.enc.heaps[h]))
			p := fmt.Sprint(pathConst(lf.steps))
			isNew := and(eq(sx("l_base", "l!a"), id), eq(sx("l_path", "l!a"), p), sx("<=", "0", sx("l_idx", "l!a")), sx("<", sx("l_idx", "l!a"), newLen))
			newVal := ite(sx("<", sx("l_idx", "l!a"), sx("s_len", s)),
				sx("select", old, pathLoc(sx("elemloc", s, sx("l_idx", "l!a")), lf.steps)),
				sx("select", old, pathLoc(sx("elemloc", e, sx("-", sx("l_idx", "l!a"), sx("s_len", s))), lf.steps)))
			vc.assume(and(pc, not(inPlace)), fmt.Sprintf("(forall ((l!a Loc)) (! (= (select %s l!a) (ite %s %s (select %s l!a))) :pattern ((select %s l!a))))", nhf, isNew, newVal, old, nhf))
			vc.heapAlloc[nhf] = st.alloc
			nh := vc.define(h, fmt.Sprintf("(Array Loc %s)", vc.enc.heaps[h]), ite(inPlace, ipH, nhf))
			st.heap[h] = nh
			continue
		}
		nh := vc.freshName(h)
		vc.declare(nh, fmt.Sprintf("(Array Loc %s)", vc.enc.heaps[h]))
		st.heap[h] = nh
		p := fmt.Sprint(pathConst(lf.steps))
		srcAt := func(k string) string {
			return sx("select", old, pathLoc(sx("elemloc", e, k), lf.steps))
		}
		// in place: elements [len, len+n) of the old array receive e[k]; everything else unchanged
		inRange := func(loc string) string {
			return and(eq(sx("l_base", loc), sx("s_arr", s)), eq(sx("l_path", loc), p),
				sx("<=", sx("+", sx("s_off", s), sx("s_len", s)), sx("l_idx", loc)), sx("<", sx("l_idx", loc), sx("+", sx("s_off", s), newLen)))
		}
		ip := fmt.Sprintf("(forall ((l!a Loc)) (! (= (select %s l!a) (ite %s %s (select %s l!a))) :pattern ((select %s l!a))))",
			nh, inRange("l!a"), srcAt(sx("-", sx("l_idx", "l!a"), sx("+", sx("s_off", s), sx("s_len", s)))), old, nh)
		// fresh: new object id holds old elements then e; everything else unchanged
		isNew := func(loc string) string {
			return and(eq(sx("l_base", loc), id), eq(sx("l_path", loc), p), sx("<=", "0", sx("l_idx", loc)), sx("<", sx("l_idx", loc), newLen))
		}
		newVal := ite(sx("<", sx("l_idx", "l!a"), sx("s_len", s)),
			sx("select", old, pathLoc(sx("elemloc", s, sx("l_idx", "l!a")), lf.steps)),
			srcAt(sx("-", sx("l_idx", "l!a"), sx("s_len", s))))
		fr := fmt.Sprintf("(forall ((l!a Loc)) (! (= (select %s l!a) (ite %s %s (select %s l!a))) :pattern ((select %s l!a))))",
			nh, isNew("l!a"), newVal, old, nh)
		vc.assume(and(pc, inPlace), ip)
		vc.assume(and(pc, not(inPlace)), fr)
		vc.heapAlloc[nh] = st.alloc
	}
}

func (vc *VC) execCopy(x *ssa.Call, pc string, st *State) {
	args := x.Common().Args
	d, s := vc.val(args[0]), vc.val(args[1])
	sl, ok := args[0].Type().Underlying().(*types.Slice)
	if !ok {
		panic(unsupported("copy to " + args[0].Type().String()))
	}
	if _, isSl := args[1].Type().Underlying().(*types.Slice); !isSl {
		panic(unsupported("copy from " + args[1].Type().String()))
	}
	n := vc.setVal(x, ite(sx("<=", sx("s_len", d), sx("s_len", s)), sx("s_len", d), sx("s_len", s)))
	pre := st.clone()
	for _, lf := range vc.enc.Leaves(sl.Elem()) {
		h := lf.heap
		old := vc.heapGet(pre, h)
		nh := vc.freshName(h)
		vc.declare(nh, fmt.Sprintf("(Array Loc %s)", vc.enc.heaps[h]))
		st.heap[h] = nh
		p := fmt.Sprint(pathConst(lf.steps))
		inRange := and(eq(sx("l_base", "l!a"), sx("s_arr", d)), eq(sx("l_path", "l!a"), p),
			sx("<=", sx("s_off", d), sx("l_idx", "l!a")), sx("<", sx("l_idx", "l!a"), sx("+", sx("s_off", d), n)))
		src := sx("select", old, pathLoc(sx("elemloc", s, sx("-", sx("l_idx", "l!a"), sx("s_off", d))), lf.steps))
		vc.assume(pc, fmt.Sprintf("(forall ((l!a Loc)) (! (= (select %s l!a) (ite %s %s (select %s l!a))) :pattern ((select %s l!a))))",
			nh, inRange, src, old, nh))
	}
}

// ---------------------------------------------------------------------------
// maps: map[K]V as a reference (Loc) to (dom: Array K Bool, val: Array K V, size Int)

type mapRange struct {
	m       ssa.Value
	visited string // ghost: Array K Bool, current
}

func (vc *VC) mapSorts(t types.Type) (string, string) {
	m := t.Underlying().(*types.Map)
	return vc.enc.SortOf(m.Key()), vc.enc.SortOf(m.Elem())
}

func (vc *VC) mapHeap(t types.Type) string {
	k, v := vc.mapSorts(t)
	name := "M_" + vc.enc.mangle(typeStr(t))
	for _, suffix := range []struct{ s, sort string }{{"_dom", fmt.Sprintf("(Array %s Bool)", k)}, {"_val", fmt.Sprintf("(Array %s %s)", k, v)}, {"_size", "Int"}} {
		n := name + suffix.s
		if _, ok := vc.enc.heaps[n]; !ok {
			vc.enc.heaps[n] = suffix.sort
			vc.enc.heapOrder = append(vc.enc.heapOrder, n)
		}
	}
	return name
}

func (vc *VC) mapLen(st *State, m ssa.Value) string {
	h := vc.mapHeap(m.Type())
	t := sx("select", vc.heapGet(st, h+"_size"), vc.val(m))
	vc.assume("true", and(sx("<=", "0", t), sx("<=", t, MAXLEN))) // sizes are lengths (N: < 2^40)
	return t
}

func (vc *VC) execMakeMap(x *ssa.MakeMap, pc string, st *State) {
	id := vc.allocID(st)
	loc := vc.setVal(x, fmt.Sprintf("(mk_loc %s 0 0)", id))
	h := vc.mapHeap(x.Type())
	k, _ := vc.mapSorts(x.Type())
	vc.assume(pc, eq(sx("select", vc.heapGet(st, h+"_dom"), loc), fmt.Sprintf("((as const (Array %s Bool)) false)", k)))
	vc.assume(pc, eq(sx("select", vc.heapGet(st, h+"_size"), loc), "0"))
}

func (vc *VC) execMapUpdate(x *ssa.MapUpdate, pc string, st *State) {
	m := vc.val(x.Map)
	vc.guardedUse(x.Map, pc, st, x.Pos(), "map update")
	vc.oblige("nil", "map update", pc, not(eq(m, nilLoc)), nil, x.Pos(), "assignment to entry in nil map")
	h := vc.mapHeap(x.Map.Type())
	k, v := vc.val(x.Key), vc.val(x.Value)
	dom := sx("select", vc.heapGet(st, h+"_dom"), m)
	val := sx("select", vc.heapGet(st, h+"_val"), m)
	size := sx("select", vc.heapGet(st, h+"_size"), m)
	ks, vs := vc.mapSorts(x.Map.Type())
	newSize := ite(sx("select", dom, k), size, sx("+", size, "1"))
	st.heap[h+"_size"] = vc.define(h+"_size", "(Array Loc Int)", sx("store", vc.heapGet(st, h+"_size"), m, newSize))
	st.heap[h+"_dom"] = vc.define(h+"_dom", fmt.Sprintf("(Array Loc (Array %s Bool))", ks), sx("store", vc.heapGet(st, h+"_dom"), m, sx("store", dom, k, "true")))
	st.heap[h+"_val"] = vc.define(h+"_val", fmt.Sprintf("(Array Loc (Array %s %s))", ks, vs), sx("store", vc.heapGet(st, h+"_val"), m, sx("store", val, k, v)))
}

func (vc *VC) execLookup(x *ssa.Lookup, pc string, st *State) {
	if _, ok := x.X.Type().Underlying().(*types.Map); !ok {
		// string index
		s, i := vc.val(x.X), vc.val(x.Index)
		vc.oblige("index", "", pc, and(sx("<=", "0", i), sx("<", i, sx("slen", s))), nil, x.Pos(), "string index in range")
		vc.setVal(x, sx("sat", s, i))
		return
	}
	m := vc.val(x.X)
	vc.guardedUse(x.X, pc, st, x.Pos(), "map lookup")
	h := vc.mapHeap(x.X.Type())
	k := vc.val(x.Index)
	// reading a nil map is legal and yields the zero value
	dom := sx("select", vc.heapGet(st, h+"_dom"), m)
	val := sx("select", vc.heapGet(st, h+"_val"), m)
	et := x.X.Type().Underlying().(*types.Map).Elem()
	present := and(not(eq(m, nilLoc)), sx("select", dom, k))
	v := ite(present, sx("select", val, k), vc.enc.Zero(et))
	if x.CommaOk {
		okn := vc.define("ok_"+x.Name(), "Bool", present)
		vn := vc.define("mv_"+x.Name(), vc.enc.SortOf(et), v)
		vc.assume(pc, vc.typeInv(st, vn, et))
		vc.tuples[x] = []string{vn, okn}
		return
	}
	r := vc.setVal(x, v)
	vc.assume(pc, vc.typeInv(st, r, et))
}

// Range/Next over a map: assumed semantics "each key of the map is visited exactly once, in
// arbitrary order". The iterator is a ghost visited-set + count, exposed to invariants as
// ghost names it_visited / it_count.
func (vc *VC) execRange(x *ssa.Range, pc string, st *State) {
	if _, ok := x.X.Type().Underlying().(*types.Map); !ok {
		panic(unsupported("range over " + x.X.Type().String()))
	}
	ks, _ := vc.mapSorts(x.X.Type())
	vc.guardedUse(x.X, pc, st, x.Pos(), "range")
	vc.ensureIterGhosts(ks)
	st.ghost["it_visited"] = vc.define("G_it_visited", fmt.Sprintf("(Array %s Bool)", ks), fmt.Sprintf("((as const (Array %s Bool)) false)", ks))
	st.ghost["it_count"] = "0"
	vc.vals[x] = "fn_nil"
	vc.mapRanges[x] = &mapRange{m: x.X}
}

func (vc *VC) ensureIterGhosts(ks string) {
	cs := vc.w.cs
	if cs.GhostByNm["it_visited"] == nil {
		g := &GhostVar{Name: "it_visited", Sort: fmt.Sprintf("(Array %s Bool)", ks)}
		cs.Ghosts = append(cs.Ghosts, g)
		cs.GhostByNm[g.Name] = g
		g2 := &GhostVar{Name: "it_count", Sort: "Int"}
		cs.Ghosts = append(cs.Ghosts, g2)
		cs.GhostByNm[g2.Name] = g2
	}
}

func (vc *VC) execNext(x *ssa.Next, pc string, st *State) {
	if x.IsString {
		panic(unsupported("range over string"))
	}
	mr := vc.mapRanges[x.Iter]
	if mr == nil {
		panic(unsupported("Next on unknown iterator"))
	}
	m := vc.val(mr.m)
	vc.guardedUse(mr.m, pc, st, x.Pos(), "range step")
	h := vc.mapHeap(mr.m.Type())
	ks, vs := vc.mapSorts(mr.m.Type())
	dom := sx("select", vc.heapGet(st, h+"_dom"), m)
	val := sx("select", vc.heapGet(st, h+"_val"), m)
	size := sx("select", vc.heapGet(st, h+"_size"), m)
	visited := vc.ghostGet(st, "it_visited")
	count := vc.ghostGet(st, "it_count")
	okn := vc.freshName("next_ok")
	vc.declare(okn, "Bool")
	kn := vc.freshName("next_k")
	vc.declare(kn, ks)
	// ok <=> some key remains; assumed: count == number of visited keys, so ok <=> count < size
	vc.assume(pc, eq(okn, sx("<", count, size)))
	vc.assume(pc, implies(okn, and(sx("select", dom, kn), not(sx("select", visited, kn)))))
	// when the iteration ends every key has been visited (cardinality argument, assumed with the range semantics)
	vc.assume(pc, implies(not(okn), fmt.Sprintf("(forall ((k!r %s)) (! (=> (select %s k!r) (select %s k!r)) :pattern ((select %s k!r))))", ks, dom, visited, dom)))
	vn := vc.define("next_v", vs, sx("select", val, kn))
	st.ghost["it_visited"] = vc.define("G_it_visited", fmt.Sprintf("(Array %s Bool)", ks), ite(okn, sx("store", visited, kn, "true"), visited))
	st.ghost["it_count"] = vc.define("G_it_count", "Int", ite(okn, sx("+", count, "1"), count))
	vc.tuples[x] = []string{okn, kn, vn}
	vc.assumed["go:range-over-map visits each key exactly once"] = true
}

// ---------------------------------------------------------------------------
// defer: only `defer mu.Unlock()` style calls whose callee has a contract are modelled:
// the deferred call is executed at RunDefers in LIFO order.

func (vc *VC) execDefer(x *ssa.Defer, pc string, st *State) {
	if x.Block().Index != 0 && len(vc.loopHead) > 0 {
		for _, li := range vc.loopHead {
			if li.body[x.Block().Index] {
				panic(unsupported("defer inside loop"))
			}
		}
	}
	vc.deferred = append(vc.deferred, x)
	vc.deferPC = append(vc.deferPC, pc)
}

func (vc *VC) execRunDefers(x *ssa.RunDefers, pc string, st *State) {
	for i := len(vc.deferred) - 1; i >= 0; i-- {
		d := vc.deferred[i]
		// only defers registered on every path to here are supported (registered in the entry block)
		if d.Block().Index != 0 {
			panic(unsupported("conditional defer"))
		}
		c := d.Common()
		f, ok := c.Value.(*ssa.Function)
		if !ok || c.IsInvoke() {
			panic(unsupported("defer of dynamic call"))
		}
		fc := vc.w.contractFor(f)
		var formals []string
		var actuals []SpecVal
		for _, p := range f.Params {
			formals = append(formals, p.Name())
		}
		for _, a := range c.Args {
			actuals = append(actuals, vc.goVal(vc.val(a), a.Type()))
		}
		if fc != nil && len(fc.Params) == len(actuals) {
			formals = fc.Params
		}
		if len(formals) != len(actuals) {
			sig := c.Signature()
			formals = nil
			if sig.Recv() != nil {
				formals = append(formals, sig.Recv().Name())
			}
			for j := 0; j < sig.Params().Len(); j++ {
				formals = append(formals, sig.Params().At(j).Name())
			}
		}
		var pkg *types.Package
		if f.Pkg != nil {
			pkg = f.Pkg.Pkg
		}
		vc.applyContract(fc, shortFuncName(f), formals, actuals, c.Signature().Results(), pkg, pc, st, x.Pos())
	}
}

// ---------------------------------------------------------------------------

func (w *World) initGlobals() {
	if w.globalIDs != nil {
		return
	}
	w.globalIDs = map[*ssa.Global]int{}
	var gs []*ssa.Global
	for _, p := range w.prog.AllPackages() {
		for _, m := range p.Members {
			if g, ok := m.(*ssa.Global); ok {
				gs = append(gs, g)
			}
		}
	}
	sort.Slice(gs, func(i, j int) bool { return gs[i].String() < gs[j].String() })
	for i, g := range gs {
		w.globalIDs[g] = i + 1
	}
}

func (w *World) globalID(g *ssa.Global) int {
	w.initGlobals()
	return w.globalIDs[g]
}

func (w *World) numGlobals() int {
	w.initGlobals()
	return len(w.globalIDs)
}
