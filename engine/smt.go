package main

// SMT-LIB2 term construction helpers and the fixed prelude.
//
// Encoding summary (DESIGN.md §2.3, as built):
//   int kinds, byte, rune  -> Int (mathematical, explicit overflow obligations)
//   bool                   -> Bool
//   string                 -> Str (uninterpreted sort; slen, sat, cat, ...)
//   pointers               -> Loc = mk_loc(base Int, idx Int, path Int); nil = mk_loc(0,0,0)
//                             base: allocated object id, idx: element index in a backing array,
//                             path: field path inside the object/element (path*64+k+1 per field step)
//   slices                 -> Slice = mk_slice(arr Int, off Int, len Int, cap Int); nil slice: arr=0
//   interfaces             -> Iface = mk_iface(dyn Type, val Any)
//   structs (by value)     -> one SMT record datatype per struct type
//   heap                   -> one SMT array per leaf Go type: H_<type> : Array Loc <sort>

import (
	"fmt"
	"strings"
)

func sx(op string, args ...string) string {
	if len(args) == 0 {
		return op
	}
	return "(" + op + " " + strings.Join(args, " ") + ")"
}

func and(args ...string) string {
	var a []string
	for _, x := range args {
		if x == "true" {
			continue
		}
		if x == "false" {
			return "false"
		}
		a = append(a, x)
	}
	switch len(a) {
	case 0:
		return "true"
	case 1:
		return a[0]
	}
	return sx("and", a...)
}

func or(args ...string) string {
	var a []string
	for _, x := range args {
		if x == "false" {
			continue
		}
		if x == "true" {
			return "true"
		}
		a = append(a, x)
	}
	switch len(a) {
	case 0:
		return "false"
	case 1:
		return a[0]
	}
	return sx("or", a...)
}

func not(a string) string {
	if a == "true" {
		return "false"
	}
	if a == "false" {
		return "true"
	}
	if strings.HasPrefix(a, "(not ") && balancedPrefix(a[5:len(a)-1]) {
		return a[5 : len(a)-1]
	}
	return sx("not", a)
}

func balancedPrefix(s string) bool {
	d := 0
	for i, c := range s {
		switch c {
		case '(':
			d++
		case ')':
			d--
			if d == 0 && i != len(s)-1 {
				return false
			}
			if d < 0 {
				return false
			}
		case ' ':
			if d == 0 {
				return false
			}
		}
	}
	return d == 0
}

func implies(a, b string) string {
	if a == "true" {
		return b
	}
	if b == "true" {
		return "true"
	}
	if a == "false" {
		return "true"
	}
	return sx("=>", a, b)
}

func eq(a, b string) string { return sx("=", a, b) }

func ite(c, a, b string) string {
	if c == "true" {
		return a
	}
	if c == "false" {
		return b
	}
	if a == b {
		return a
	}
	return sx("ite", c, a, b)
}

func intLit(n int64) string {
	if n < 0 {
		return fmt.Sprintf("(- %d)", -n)
	}
	return fmt.Sprintf("%d", n)
}

func bigLit(s string) string {
	if strings.HasPrefix(s, "-") {
		return "(- " + s[1:] + ")"
	}
	return s
}

const nilLoc = "(mk_loc 0 0 0)"
const nilSlice = "(mk_slice 0 0 0 0)"
const nilIface = "(mk_iface T_nil any_nil)"

// MAXLEN bounds every string and slice length (DESIGN §2.2: 2^40).
const MAXLEN = "1099511627776"

// nlmulAxiom is added only to scripts that mention nlmul (its mere presence made z3 answer unknown elsewhere).
const nlmulAxiom = `(assert (forall ((a Int) (b Int)) (! (and (= (nlmul a b) (nlmul b a)) (=> (= a 0) (= (nlmul a b) 0)) (=> (= a 1) (= (nlmul a b) b)) (=> (and (>= a 0) (>= b 0)) (>= (nlmul a b) 0)) (=> (and (>= a 1) (>= b 0)) (>= (nlmul a b) b))) :pattern ((nlmul a b)))))
`

const prelude = `(set-logic ALL)
(declare-sort Str 0)
(declare-sort Type 0)
(declare-sort Any 0)
(declare-sort Fn 0)
(declare-datatypes ((Loc 0)) (((mk_loc (l_base Int) (l_idx Int) (l_path Int)))))
(declare-datatypes ((Slice 0)) (((mk_slice (s_arr Int) (s_off Int) (s_len Int) (s_cap Int)))))
(declare-datatypes ((Iface 0)) (((mk_iface (i_dyn Type) (i_val Any)))))
(declare-fun slen (Str) Int)
(declare-fun sat (Str Int) Int)
(declare-fun cat (Str Str) Str)
(declare-const T_nil Type)
(declare-const any_nil Any)
(declare-const str_empty Str)
(declare-fun otype (Int) Int)
(declare-fun nlmul (Int Int) Int)
(define-fun fldloc ((l Loc) (k Int)) Loc (mk_loc (l_base l) (l_idx l) (+ (* 64 (l_path l)) k 1)))
(declare-fun elemloc (Slice Int) Loc)
(assert (forall ((s Slice) (i Int)) (! (= (elemloc s i) (mk_loc (s_arr s) (+ (s_off s) i) 0)) :pattern ((elemloc s i)))))
(define-fun isnil ((l Loc)) Bool (= (l_base l) 0))
(define-fun iface_eq ((a Iface) (b Iface)) Bool (and (= (i_dyn a) (i_dyn b)) (or (= (i_dyn a) T_nil) (= (i_val a) (i_val b)))))
(define-fun valid_slice ((s Slice)) Bool (and (>= (s_arr s) 0) (>= (s_off s) 0) (>= (s_len s) 0) (<= (s_len s) (s_cap s)) (<= (s_cap s) ` + MAXLEN + `) (=> (= (s_arr s) 0) (and (= (s_off s) 0) (= (s_cap s) 0)))))
(assert (forall ((s Str)) (! (and (>= (slen s) 0) (<= (slen s) ` + MAXLEN + `)) :pattern ((slen s)))))
(assert (forall ((s Str)) (! (=> (= (slen s) 0) (= s str_empty)) :pattern ((slen s)))))
(assert (= (slen str_empty) 0))
(assert (forall ((a Str) (b Str)) (! (= (slen (cat a b)) (+ (slen a) (slen b))) :pattern ((cat a b)))))
(assert (forall ((a Str) (b Str) (i Int)) (! (= (sat (cat a b) i) (ite (< i (slen a)) (sat a i) (sat b (- i (slen a))))) :pattern ((sat (cat a b) i)))))
(assert (forall ((s Str) (i Int)) (! (and (<= 0 (sat s i)) (<= (sat s i) 255)) :pattern ((sat s i)))))
`
