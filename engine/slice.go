package main

// Relevance slicing of the hypotheses of one obligation. Dropping hypotheses is sound (an `unsat`
// for fewer assumptions is an `unsat` for all of them); it keeps the solvers from instantiating the
// definitional axioms of heaps that the goal cannot depend on.

import (
	"os"
	"strings"
)

var sliceDebug = os.Getenv("GOVC_SLICE_DEBUG") != ""

func tokenize(s string) []string {
	var out []string
	cur := strings.Builder{}
	flush := func() {
		if cur.Len() > 0 {
			out = append(out, cur.String())
			cur.Reset()
		}
	}
	for _, c := range s {
		switch c {
		case '(', ')', ' ', '\n', '\t':
			flush()
		default:
			cur.WriteRune(c)
		}
	}
	flush()
	return out
}

func heapFamily(tok string) (string, bool) {
	if !(strings.HasPrefix(tok, "H_") || strings.HasPrefix(tok, "M_")) {
		return "", false
	}
	if i := strings.Index(tok, "!"); i >= 0 {
		return tok[:i], true
	}
	return tok, true
}

type assertInfo struct {
	text    string
	defName string
	syms    []string
	fams    []string
}

func analyseAssert(a string, declared map[string]bool) *assertInfo {
	ai := &assertInfo{text: a}
	toks := tokenize(a)
	seenS, seenF := map[string]bool{}, map[string]bool{}
	for _, t := range toks {
		if f, ok := heapFamily(t); ok {
			if !seenF[f] {
				seenF[f] = true
				ai.fams = append(ai.fams, f)
			}
		}
		if declared[t] && !seenS[t] {
			seenS[t] = true
			ai.syms = append(ai.syms, t)
		}
	}
	if strings.HasPrefix(a, "(= ") && len(toks) >= 2 && toks[0] == "=" && declared[toks[1]] && !strings.HasPrefix(a, "(= (") {
		ai.defName = toks[1]
	}
	return ai
}

// sliceHyps returns the subset of hyps relevant for the goal text.
func sliceHyps(hyps []string, always []string, goal string, declared map[string]bool) ([]string, map[string]bool) {
	infos := make([]*assertInfo, len(hyps))
	for i, h := range hyps {
		infos[i] = analyseAssert(h, declared)
	}
	rsym, rfam := map[string]bool{}, map[string]bool{}
	addText := func(s string) {
		for _, t := range tokenize(s) {
			if f, ok := heapFamily(t); ok {
				rfam[f] = true
			}
			if declared[t] {
				rsym[t] = true
			}
		}
	}
	addText(goal)
	for _, a := range always {
		addText(a)
	}
	included := make([]bool, len(hyps))
	for changed := true; changed; {
		changed = false
		for i, ai := range infos {
			if included[i] {
				continue
			}
			take := false
			if ai.defName != "" {
				if f, isHeap := heapFamily(ai.defName); isHeap {
					take = rfam[f]
				} else {
					take = rsym[ai.defName]
				}
			} else {
				// (a) it talks about a relevant heap family, or (b) it mentions a relevant (non-control)
				// symbol and only few heap families, or (c) it is a pure control fact
				for _, f := range ai.fams {
					if rfam[f] {
						take = true
						break
					}
				}
				if !take {
					nsym := 0
					hit := false
					for _, s := range ai.syms {
						if controlSym(s) {
							continue
						}
						nsym++
						if rsym[s] {
							hit = true
						}
					}
					if hit && len(ai.fams) <= 4 {
						take = true
					}
					if nsym == 0 && len(ai.fams) == 0 {
						take = true
					}
				}
			}
			if take {
				included[i] = true
				changed = true
				if sliceDebug {
					for _, f := range ai.fams {
						if !rfam[f] && (ai.defName != "" || len(ai.fams) <= 4) {
							t := ai.text
							if len(t) > 300 {
								t = t[:300]
							}
							println("RELEVANT", f, "via", t)
						}
					}
				}
				for _, s := range ai.syms {
					rsym[s] = true
				}
				// definitions, and assumptions about only a few heap families, make those families relevant;
				// big atoms (opaque predicates over many heaps) are kept without widening the slice
				if ai.defName != "" || len(ai.fams) <= 4 {
					for _, f := range ai.fams {
						rfam[f] = true
					}
				}
			}
		}
	}
	var out []string
	for i, h := range hyps {
		if included[i] {
			out = append(out, h)
		}
	}
	return out, rfam
}


func controlSym(s string) bool {
	for _, p := range []string{"pc_", "pc!", "e_", "disp!", "inplace!", "alloc!", "applen!", "appcap!"} {
		if strings.HasPrefix(s, p) {
			return true
		}
	}
	return false
}
