package main

// Contract files: comment-only Go files (//go:build verif) inside /repo, and
// /verif/contracts/*.spec for assumed (trusted) contracts of externals.
// Every directive is a line starting with "//@".

import (
	"bufio"
	"fmt"
	"os"
	"path/filepath"
	"regexp"
	"sort"
	"strconv"
	"strings"
)

type Clause struct {
	Kind  string // requires ensures invariant decreases assigns unfold use ghost assume
	Label string
	Text  string
	Expr  SExpr
	Tags  []string
	File  string
	Line  int
}

type LoopContract struct {
	N          int
	Invariants []*Clause
	Decreases  *Clause
	Assigns    []*Clause
	Hints      []*Clause // unfold / use at loop head (after assuming invariant) and at back edge
}

type CallHint struct {
	Callee string // substring match on callee name
	N      int    // 1-based ordinal among matching calls; 0 = all
	When   SExpr  // optional condition on args (a0,a1,..): static match if decidable
	Before []*Clause
	After  []*Clause
}

type FuncContract struct {
	Key       string // pkgpath::RelName
	Pkg       string
	Name      string
	IsIface   bool
	Trusted   bool // assumed contract (external function or interface implemented by user code)
	Requires  []*Clause
	Ensures   []*Clause
	Assigns   []*Clause
	Decreases *Clause
	Loops     map[int]*LoopContract
	Calls     []*CallHint
	Entry     []*Clause // unfold/use hints at entry
	Exit      []*Clause // unfold/use hints before return
	Tags      []string
	Dispatch  []string // for iface contracts: implementing function names (same package qualifier rules)
	Replay    string
	Params    []string // optional explicit parameter names (for externals/ifaces)
	NoBody    bool     // do not verify body (trusted)
	File      string
	Line      int
	Opaque    bool
	Pure      string   // name of the spec function this (deterministic, heap-independent) function computes
	PureArgs  []string // parameter names passed to it
}

type SpecFunc struct {
	Name   string
	Params []SParam
	Result *STypeExpr
	Body   SExpr // nil for uninterpreted
	Rec    bool  // recursive: stays uninterpreted, body only at explicit unfold points
	Opaque bool  // defined, but kept as an uninterpreted symbol with a quantified defining axiom (usable in triggers)
	File   string
	Line   int
}

type Pred struct {
	Opaque bool
	Name   string
	Params []SParam
	Body   SExpr
	Text   string
	File   string
	Line   int
}

type GhostVar struct {
	Name string
	Sort string // SMT sort text e.g. Int, Bool, (Array Int Str)
	Init string // optional SMT init value
}

type Axiom struct {
	Name string
	Expr SExpr
	Text string
	File string
	Line int
}

type Lemma struct {
	Name      string
	Params    []SParam
	Requires  []*Clause
	Ensures   []*Clause
	Hints     []*Clause // unfold / use (may reference the lemma itself = induction hypothesis)
	Decreases *Clause
	Tags      []string
	File      string
	Line      int
}

// Guard: `guard VAR.FIELD by GHOST @tags` -- every access to the package-level VAR.FIELD (and to the
// map loaded from it) must happen while the boolean ghost GHOST holds (lock discipline).
type Guard struct {
	Pkg, Var, Field, Ghost string
	Tags                   []string
	File                   string
	Line                   int
}

type GlobalInv struct {
	Tags []string
	Pkg  string
	Expr SExpr
	Text string
	File string
	Line int
}

type ContractSet struct {
	Funcs      map[string]*FuncContract
	SpecFuncs  map[string]*SpecFunc
	Preds      map[string]*Pred
	Ghosts     []*GhostVar
	GhostByNm  map[string]*GhostVar
	Axioms     []*Axiom
	Lemmas     map[string]*Lemma
	LemmaOrder []string
	GlobalInvs []*GlobalInv
	Guards     []*Guard
	Globals    []*GlobalDecl
	Files      []string
	Errors     []string
}

func NewContractSet() *ContractSet {
	return &ContractSet{Funcs: map[string]*FuncContract{}, SpecFuncs: map[string]*SpecFunc{}, Preds: map[string]*Pred{},
		GhostByNm: map[string]*GhostVar{}, Lemmas: map[string]*Lemma{}}
}

var tagRe = regexp.MustCompile(`\s@(C\d+(?:,C\d+)*)\s*$`)
var labelRe = regexp.MustCompile(`^\[([^\]]+)\]\s*`)

var clauseKeywords = map[string]bool{
	"package": true, "func": true, "iface": true, "requires": true, "ensures": true, "assigns": true,
	"decreases": true, "tags": true, "dispatch": true, "replay": true, "spec": true, "pred": true,
	"ghost": true, "axiom": true, "pure": true, "lemma": true, "entry": true, "exit": true, "assert": true, "trusted": true, "params": true,
	"globalinv": true, "guard": true, "global": true, "call": true, "unfold": true, "use": true, "assume": true, "end": true, "opaque": true,
}

func isClauseStart(s string) bool {
	f := strings.Fields(s)
	if len(f) == 0 {
		return false
	}
	if clauseKeywords[f[0]] {
		return true
	}
	if strings.HasPrefix(f[0], "loop#") {
		return true
	}
	return false
}

// LoadFile parses one contract file. defaultPkg is the import path for files inside /repo.
func (cs *ContractSet) LoadFile(path, defaultPkg string) {
	f, err := os.Open(path)
	if err != nil {
		cs.Errors = append(cs.Errors, err.Error())
		return
	}
	defer f.Close()
	cs.Files = append(cs.Files, path)
	sc := bufio.NewScanner(f)
	sc.Buffer(make([]byte, 1<<20), 1<<20)
	type rawClause struct {
		text string
		line int
	}
	var raws []rawClause
	ln := 0
	for sc.Scan() {
		ln++
		line := strings.TrimSpace(sc.Text())
		if !strings.HasPrefix(line, "//@") {
			continue
		}
		body := strings.TrimSpace(line[3:])
		if body == "" {
			continue
		}
		if strings.HasPrefix(body, "--") { // comment inside contract
			continue
		}
		if isClauseStart(body) || len(raws) == 0 {
			raws = append(raws, rawClause{body, ln})
		} else {
			raws[len(raws)-1].text += " " + body
		}
	}
	pkg := defaultPkg
	var cur *FuncContract
	var curLemma *Lemma
	fail := func(line int, f string, a ...interface{}) {
		cs.Errors = append(cs.Errors, fmt.Sprintf("%s:%d: %s", path, line, fmt.Sprintf(f, a...)))
	}
	mkClause := func(kind, text string, line int, parse bool) *Clause {
		c := &Clause{Kind: kind, File: path, Line: line}
		if m := tagRe.FindStringSubmatch(text); m != nil {
			c.Tags = strings.Split(m[1], ",")
			text = strings.TrimSpace(text[:len(text)-len(m[0])])
		}
		if m := labelRe.FindStringSubmatch(text); m != nil {
			c.Label = m[1]
			text = text[len(m[0]):]
		}
		c.Text = text
		if parse {
			e, err := parseSpecExpr(text)
			if err != nil {
				fail(line, "%v", err)
				return nil
			}
			c.Expr = e
		}
		return c
	}
	for _, rc := range raws {
		fields := strings.Fields(rc.text)
		kw := fields[0]
		rest := strings.TrimSpace(rc.text[len(kw):])
		switch {
		case kw == "package":
			pkg = rest
			cur, curLemma = nil, nil
		case kw == "func" || kw == "iface":
			cur = &FuncContract{Pkg: pkg, Name: rest, Key: pkg + "::" + rest, IsIface: kw == "iface", Loops: map[int]*LoopContract{}, File: path, Line: rc.line}
			curLemma = nil
			if _, dup := cs.Funcs[cur.Key]; dup {
				fail(rc.line, "duplicate contract for %s", cur.Key)
			}
			cs.Funcs[cur.Key] = cur
		case kw == "end":
			cur, curLemma = nil, nil
		case kw == "spec":
			// spec name(params) type [= body]
			isRec, isOpaque := false, false
			if strings.HasPrefix(rest, "rec ") {
				isRec = true
				rest = strings.TrimSpace(rest[4:])
			}
			if strings.HasPrefix(rest, "opaque ") {
				isOpaque = true
				rest = strings.TrimSpace(rest[7:])
			}
			sf, err := parseSpecFuncDecl(rest)
			if sf != nil {
				sf.Rec = isRec
				sf.Opaque = isOpaque
			}
			if err != nil {
				fail(rc.line, "%v", err)
				continue
			}
			sf.File, sf.Line = path, rc.line
			if prev, dup := cs.SpecFuncs[sf.Name]; dup {
				fail(rc.line, "spec %s already defined at %s:%d (spec names are global)", sf.Name, prev.File, prev.Line)
			}
			cs.SpecFuncs[sf.Name] = sf
		case kw == "pred":
			predOpaque := false
			if strings.HasPrefix(rest, "opaque ") {
				predOpaque = true
				rest = strings.TrimSpace(rest[7:])
			}
			p, err := parsePredDecl(rest)
			if p != nil {
				p.Opaque = predOpaque
			}
			if err != nil {
				fail(rc.line, "%v", err)
				continue
			}
			p.File, p.Line = path, rc.line
			if prev, dup := cs.Preds[p.Name]; dup {
				fail(rc.line, "pred %s already defined at %s:%d (pred names are global)", p.Name, prev.File, prev.Line)
			}
			cs.Preds[p.Name] = p
		case kw == "ghost":
			// ghost var name sort [= init]
			r := strings.TrimSpace(strings.TrimPrefix(rest, "var"))
			parts := strings.SplitN(r, " ", 2)
			if len(parts) != 2 {
				fail(rc.line, "bad ghost var")
				continue
			}
			g := &GhostVar{Name: parts[0], Sort: strings.TrimSpace(parts[1])}
			if _, dup := cs.GhostByNm[g.Name]; !dup {
				cs.Ghosts = append(cs.Ghosts, g)
				cs.GhostByNm[g.Name] = g
			}
		case kw == "axiom":
			idx := strings.Index(rest, ":")
			if idx < 0 {
				fail(rc.line, "axiom needs a name:")
				continue
			}
			e, err := parseSpecExpr(rest[idx+1:])
			if err != nil {
				fail(rc.line, "%v", err)
				continue
			}
			cs.Axioms = append(cs.Axioms, &Axiom{Name: strings.TrimSpace(rest[:idx]), Expr: e, Text: rest[idx+1:], File: path, Line: rc.line})
		case kw == "global":
			// global NAME immutable|guarded -- why
			why := ""
			if i := strings.Index(rest, "--"); i >= 0 {
				why = strings.TrimSpace(rest[i+2:])
				rest = strings.TrimSpace(rest[:i])
			}
			f := strings.Fields(rest)
			if len(f) != 2 || (f[1] != "immutable" && f[1] != "guarded") {
				fail(rc.line, "global NAME immutable|guarded -- why")
				continue
			}
			cs.Globals = append(cs.Globals, &GlobalDecl{Pkg: pkg, Name: f[0], Mode: f[1], Why: why, File: path, Line: rc.line})
		case kw == "guard":
			var gtags []string
			if m := tagRe.FindStringSubmatch(rest); m != nil {
				gtags = strings.Split(m[1], ",")
				rest = strings.TrimSpace(rest[:len(rest)-len(m[0])])
			}
			f := strings.Fields(rest)
			if len(f) != 3 || f[1] != "by" {
				fail(rc.line, "guard VAR[.FIELD] by GHOST")
				continue
			}
			g := &Guard{Pkg: pkg, Var: f[0], Ghost: f[2], Tags: gtags, File: path, Line: rc.line}
			if i := strings.Index(f[0], "."); i >= 0 {
				g.Var, g.Field = f[0][:i], f[0][i+1:]
			}
			cs.Guards = append(cs.Guards, g)
		case kw == "globalinv":
			var gtags []string
			if m := tagRe.FindStringSubmatch(rest); m != nil {
				gtags = strings.Split(m[1], ",")
				rest = strings.TrimSpace(rest[:len(rest)-len(m[0])])
			}
			e, err := parseSpecExpr(rest)
			if err != nil {
				fail(rc.line, "%v", err)
				continue
			}
			cs.GlobalInvs = append(cs.GlobalInvs, &GlobalInv{Pkg: pkg, Expr: e, Text: rest, File: path, Line: rc.line, Tags: gtags})
		case kw == "lemma":
			name, params, _, err := parseSig(rest, false)
			if err != nil {
				fail(rc.line, "%v", err)
				continue
			}
			curLemma = &Lemma{Name: name, Params: params, File: path, Line: rc.line}
			cur = nil
			cs.Lemmas[name] = curLemma
			cs.LemmaOrder = append(cs.LemmaOrder, name)
		default:
			if curLemma != nil {
				switch kw {
				case "requires":
					if c := mkClause(kw, rest, rc.line, true); c != nil {
						curLemma.Requires = append(curLemma.Requires, c)
					}
				case "ensures":
					if c := mkClause(kw, rest, rc.line, true); c != nil {
						curLemma.Ensures = append(curLemma.Ensures, c)
					}
				case "decreases":
					curLemma.Decreases = mkClause(kw, rest, rc.line, true)
				case "unfold", "use", "assume":
					if c := mkClause(kw, rest, rc.line, true); c != nil {
						curLemma.Hints = append(curLemma.Hints, c)
					}
				case "tags":
					curLemma.Tags = splitTags(rest)
				default:
					fail(rc.line, "clause %q not valid in lemma", kw)
				}
				continue
			}
			if cur == nil {
				fail(rc.line, "clause %q outside func/lemma block", kw)
				continue
			}
			switch {
			case kw == "requires":
				if c := mkClause(kw, rest, rc.line, true); c != nil {
					cur.Requires = append(cur.Requires, c)
				}
			case kw == "ensures":
				if c := mkClause(kw, rest, rc.line, true); c != nil {
					cur.Ensures = append(cur.Ensures, c)
				}
			case kw == "assigns":
				if c := mkClause(kw, rest, rc.line, false); c != nil {
					cur.Assigns = append(cur.Assigns, c)
				}
			case kw == "decreases":
				cur.Decreases = mkClause(kw, rest, rc.line, true)
			case kw == "tags":
				cur.Tags = splitTags(rest)
			case kw == "dispatch":
				for _, d := range strings.Split(rest, ",") {
					cur.Dispatch = append(cur.Dispatch, strings.TrimSpace(d))
				}
			case kw == "replay":
				cur.Replay = rest
			case kw == "trusted":
				cur.Trusted = true
				cur.NoBody = true
			case kw == "opaque":
				cur.Opaque = true
			case kw == "pure":
				// pure name(p1, p2)
				i := strings.Index(rest, "(")
				if i < 0 || !strings.HasSuffix(rest, ")") {
					fail(rc.line, "pure name(params)")
					continue
				}
				cur.Pure = strings.TrimSpace(rest[:i])
				for _, a := range strings.Split(rest[i+1:len(rest)-1], ",") {
					cur.PureArgs = append(cur.PureArgs, strings.TrimSpace(a))
				}
			case kw == "params":
				for _, p := range strings.Split(rest, ",") {
					cur.Params = append(cur.Params, strings.TrimSpace(p))
				}
			case kw == "entry" || kw == "exit":
				f2 := strings.Fields(rest)
				if len(f2) < 2 {
					fail(rc.line, "entry/exit needs unfold|use|assume")
					continue
				}
				c := mkClause(f2[0], strings.TrimSpace(rest[len(f2[0]):]), rc.line, f2[0] != "ghost" && f2[0] != "label")
				if c != nil {
					if kw == "entry" {
						cur.Entry = append(cur.Entry, c)
					} else {
						cur.Exit = append(cur.Exit, c)
					}
				}
			case strings.HasPrefix(kw, "loop#"):
				n, err := strconv.Atoi(kw[5:])
				if err != nil {
					fail(rc.line, "bad loop ordinal")
					continue
				}
				lc := cur.Loops[n]
				if lc == nil {
					lc = &LoopContract{N: n}
					cur.Loops[n] = lc
				}
				f2 := strings.Fields(rest)
				if len(f2) < 2 {
					fail(rc.line, "loop clause needs a kind")
					continue
				}
				body := strings.TrimSpace(rest[len(f2[0]):])
				switch f2[0] {
				case "invariant":
					if c := mkClause("invariant", body, rc.line, true); c != nil {
						lc.Invariants = append(lc.Invariants, c)
					}
				case "decreases":
					lc.Decreases = mkClause("decreases", body, rc.line, true)
				case "assigns":
					lc.Assigns = append(lc.Assigns, mkClause("assigns", body, rc.line, false))
				case "unfold", "use", "assume", "assert":
					if c := mkClause(f2[0], body, rc.line, true); c != nil {
						lc.Hints = append(lc.Hints, c)
					}
				default:
					fail(rc.line, "unknown loop clause %q", f2[0])
				}
			case kw == "call":
				// call <callee>[#N] (before|after) (unfold|use|assume|ghost) expr
				f2 := strings.Fields(rest)
				if len(f2) < 4 {
					fail(rc.line, "call hint: call <callee>[#N] before|after unfold|use|assume|ghost|label <expr>")
					continue
				}
				callee := f2[0]
				n := 0
				if i := strings.Index(callee, "#"); i >= 0 {
					n, _ = strconv.Atoi(callee[i+1:])
					callee = callee[:i]
				}
				pos := f2[1]
				kind := f2[2]
				off := strings.Index(rest, kind) + len(kind)
				c := mkClause(kind, strings.TrimSpace(rest[off:]), rc.line, kind != "ghost" && kind != "label")
				if c == nil {
					continue
				}
				var h *CallHint
				for _, x := range cur.Calls {
					if x.Callee == callee && x.N == n {
						h = x
					}
				}
				if h == nil {
					h = &CallHint{Callee: callee, N: n}
					cur.Calls = append(cur.Calls, h)
				}
				if pos == "before" {
					h.Before = append(h.Before, c)
				} else {
					h.After = append(h.After, c)
				}
			default:
				fail(rc.line, "unknown clause %q", kw)
			}
		}
	}
}

func splitTags(s string) []string {
	var out []string
	for _, t := range strings.Split(s, ",") {
		t = strings.TrimSpace(t)
		if t != "" {
			out = append(out, t)
		}
	}
	return out
}

// parseSig parses "name(p1 T1, p2 T2) [Result]".
func parseSig(s string, wantResult bool) (string, []SParam, *STypeExpr, error) {
	toks, err := lex(s)
	if err != nil {
		return "", nil, nil, err
	}
	ps := &parser{toks: toks, src: s}
	var name string
	var params []SParam
	var res *STypeExpr
	err = func() (err error) {
		defer func() {
			if r := recover(); r != nil {
				if pe, ok := r.(parseErr); ok {
					err = fmt.Errorf("%s (in %q)", pe.msg, s)
					return
				}
				panic(r)
			}
		}()
		id := ps.next()
		if id.k != tIdent {
			ps.fail("expected name")
		}
		name = id.s
		ps.expectOp("(")
		if !ps.isOp(")") {
			for {
				pn := ps.next()
				if pn.k != tIdent {
					ps.fail("expected param name")
				}
				pt := ps.typeExpr()
				params = append(params, SParam{pn.s, pt})
				if ps.isOp(",") {
					ps.next()
					continue
				}
				break
			}
		}
		ps.expectOp(")")
		if wantResult {
			res = ps.typeExpr()
		}
		return nil
	}()
	return name, params, res, err
}

func parseSpecFuncDecl(s string) (*SpecFunc, error) {
	var body string
	if i := strings.Index(s, " = "); i >= 0 {
		body = s[i+3:]
		s = s[:i]
	}
	name, params, res, err := parseSig(s, true)
	if err != nil {
		return nil, err
	}
	sf := &SpecFunc{Name: name, Params: params, Result: res}
	if body != "" {
		e, err := parseSpecExpr(body)
		if err != nil {
			return nil, err
		}
		sf.Body = e
	}
	return sf, nil
}

func parsePredDecl(s string) (*Pred, error) {
	i := strings.Index(s, " = ")
	if i < 0 {
		return nil, fmt.Errorf("pred needs a body: %q", s)
	}
	name, params, _, err := parseSig(s[:i], false)
	if err != nil {
		return nil, err
	}
	e, err := parseSpecExpr(s[i+3:])
	if err != nil {
		return nil, err
	}
	return &Pred{Name: name, Params: params, Body: e, Text: s[i+3:]}, nil
}

// LoadAll loads /verif/contracts/*.spec and every zz_verif_contracts.go under the repo.
func LoadContracts(repo string, specDir string, pkgDirs map[string]string) *ContractSet {
	cs := NewContractSet()
	specs, _ := filepath.Glob(filepath.Join(specDir, "*.spec"))
	sort.Strings(specs)
	for _, s := range specs {
		cs.LoadFile(s, "")
	}
	var dirs []string
	for d := range pkgDirs {
		dirs = append(dirs, d)
	}
	sort.Strings(dirs)
	for _, d := range dirs {
		p := filepath.Join(d, "zz_verif_contracts.go")
		if _, err := os.Stat(p); err == nil {
			cs.LoadFile(p, pkgDirs[d])
		}
	}
	return cs
}
