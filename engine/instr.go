package main

import (
	"fmt"
	"go/token"
	"go/types"
	"strings"

	"golang.org/x/tools/go/ssa"
)

func isPtrToArray(t types.Type) (*types.Array, bool) {
	if p, ok := t.Underlying().(*types.Pointer); ok {
		if a, ok := p.Elem().Underlying().(*types.Array); ok {
			return a, true
		}
	}
	return nil, false
}

func (vc *VC) execInstr(in ssa.Instruction, pc string, st *State) {
	switch x := in.(type) {
	case *ssa.DebugRef:
		return
	case *ssa.Alloc:
		vc.execAlloc(x, pc, st)
	case *ssa.BinOp:
		vc.execBinOp(x, pc, st)
	case *ssa.UnOp:
		vc.execUnOp(x, pc, st)
	case *ssa.Call:
		vc.execCall(x, pc, st)
	case *ssa.ChangeInterface:
		vc.setVal(x, vc.val(x.X))
	case *ssa.ChangeType:
		vc.setVal(x, vc.val(x.X))
	case *ssa.Convert:
		vc.execConvert(x, pc, st)
	case *ssa.Extract:
		tup, ok := vc.tuples[x.Tuple]
		if !ok {
			panic(fmt.Sprintf("extract from unknown tuple %s", x.Tuple.Name()))
		}
		vc.setVal(x, tup[x.Index])
	case *ssa.Field:
		vc.setVal(x, sx(vc.enc.structSel(x.X.Type(), x.Field), vc.val(x.X)))
	case *ssa.FieldAddr:
		p := vc.val(x.X)
		vc.oblige("nil", "", pc, not(eq(p, nilLoc)), nil, x.Pos(), "field access through nil pointer")
		vc.setVal(x, sx("fldloc", p, fmt.Sprint(x.Field)))
	case *ssa.Index:
		vc.execIndex(x, pc, st)
	case *ssa.IndexAddr:
		vc.execIndexAddr(x, pc, st)
	case *ssa.Lookup:
		vc.execLookup(x, pc, st)
	case *ssa.MakeInterface:
		t := x.X.Type()
		srt := vc.enc.SortOf(t)
		vc.setVal(x, sx("mk_iface", vc.enc.TypeConst(t), vc.enc.Box(srt, vc.val(x.X))))
	case *ssa.MakeSlice:
		vc.execMakeSlice(x, pc, st)
	case *ssa.MakeMap:
		vc.execMakeMap(x, pc, st)
	case *ssa.MapUpdate:
		vc.execMapUpdate(x, pc, st)
	case *ssa.MakeClosure:
		n := vc.freshName("closure")
		vc.declare(n, "Fn")
		vc.vals[x] = n
		vc.assume(pc, not(eq(n, "fn_nil")))
	case *ssa.Slice:
		vc.execSlice(x, pc, st)
	case *ssa.Store:
		addr := vc.val(x.Addr)
		elemT := x.Addr.Type().Underlying().(*types.Pointer).Elem()
		vc.curState = st
		vc.checkGlobalStore(x, pc)
		vc.storeThrough(st, x.Addr, addr, elemT, vc.val(x.Val))
	case *ssa.TypeAssert:
		vc.execTypeAssert(x, pc, st)
	case *ssa.Range:
		vc.execRange(x, pc, st)
	case *ssa.Next:
		vc.execNext(x, pc, st)
	case *ssa.If:
		c := vc.val(x.Cond)
		b := x.Block()
		if b.Succs[0] == b.Succs[1] {
			vc.addEdge(b, b.Succs[0], pc, st)
			return
		}
		vc.addEdge(b, b.Succs[0], and(pc, c), st)
		vc.addEdge(b, b.Succs[1], and(pc, not(c)), st)
	case *ssa.Jump:
		b := x.Block()
		vc.addEdge(b, b.Succs[0], pc, st)
	case *ssa.Return:
		vc.execReturn(x, pc, st)
	case *ssa.Panic:
		vc.oblige("panic", "", pc, "false", nil, x.Pos(), "explicit panic must be unreachable")
	case *ssa.Defer:
		vc.execDefer(x, pc, st)
	case *ssa.RunDefers:
		vc.execRunDefers(x, pc, st)
	case *ssa.Go, *ssa.Send, *ssa.Select, *ssa.MakeChan:
		panic(unsupported(fmt.Sprintf("%T", in)))
	default:
		panic(unsupported(fmt.Sprintf("instruction %T", in)))
	}
}

func (vc *VC) allocID(st *State) string {
	id := st.alloc
	st.alloc = vc.define("alloc", "Int", sx("+", id, "1"))
	return id
}

func (vc *VC) zeroObject(st *State, pc string, id string, elemT types.Type, single bool) {
	// fresh memory is zero: ground facts for a single object, quantified over the index for arrays
	for _, lf := range vc.enc.Leaves(elemT) {
		h := lf.heap
		ha := vc.heapGet(st, h)
		z := vc.enc.Zero(lf.t)
		if single {
			loc := pathLoc(fmt.Sprintf("(mk_loc %s 0 0)", id), lf.steps)
			vc.assume(pc, eq(sx("select", ha, loc), z))
		} else {
			loc := pathLoc(fmt.Sprintf("(mk_loc %s i!z 0)", id), lf.steps)
			sel := sx("select", ha, loc)
			vc.assume(pc, fmt.Sprintf("(forall ((i!z Int)) (! (= %s %s) :pattern (%s)))", sel, z, sel))
		}
	}
}

func (vc *VC) execAlloc(x *ssa.Alloc, pc string, st *State) {
	elemT := x.Type().Underlying().(*types.Pointer).Elem()
	id := vc.allocID(st)
	loc := vc.setVal(x, fmt.Sprintf("(mk_loc %s 0 0)", id))
	_ = loc
	if a, ok := elemT.Underlying().(*types.Array); ok {
		vc.zeroObject(st, pc, id, a.Elem(), false)
		return
	}
	vc.zeroObject(st, pc, id, elemT, true)
}

func (vc *VC) execMakeSlice(x *ssa.MakeSlice, pc string, st *State) {
	l, c := vc.val(x.Len), vc.val(x.Cap)
	vc.oblige("make", "", pc, and(sx("<=", "0", l), sx("<=", l, c), sx("<=", c, MAXLEN)), nil, x.Pos(), "make: 0 <= len <= cap")
	id := vc.allocID(st)
	elemT := x.Type().Underlying().(*types.Slice).Elem()
	vc.zeroObject(st, pc, id, elemT, false)
	vc.setVal(x, sx("mk_slice", id, "0", l, c))
}

func (vc *VC) execIndexAddr(x *ssa.IndexAddr, pc string, st *State) {
	i := vc.val(x.Index)
	if arr, ok := isPtrToArray(x.X.Type()); ok {
		p := vc.val(x.X)
		vc.oblige("nil", "", pc, not(eq(p, nilLoc)), nil, x.Pos(), "index through nil array pointer")
		vc.oblige("index", "", pc, and(sx("<=", "0", i), sx("<", i, fmt.Sprint(arr.Len()))), nil, x.Pos(), "array index in range")
		vc.setVal(x, sx("mk_loc", sx("l_base", p), i, "0"))
		return
	}
	if _, ok := x.X.Type().Underlying().(*types.Slice); ok {
		s := vc.val(x.X)
		vc.oblige("index", "", pc, and(sx("<=", "0", i), sx("<", i, sx("s_len", s))), nil, x.Pos(), "slice index in range")
		vc.setVal(x, sx("elemloc", s, i))
		return
	}
	panic(unsupported("IndexAddr on " + x.X.Type().String()))
}

func (vc *VC) execIndex(x *ssa.Index, pc string, st *State) {
	i := vc.val(x.Index)
	if b, ok := x.X.Type().Underlying().(*types.Basic); ok && b.Info()&types.IsString != 0 {
		s := vc.val(x.X)
		vc.oblige("index", "", pc, and(sx("<=", "0", i), sx("<", i, sx("slen", s))), nil, x.Pos(), "string index in range")
		vc.setVal(x, sx("sat", s, i))
		return
	}
	panic(unsupported("Index on " + x.X.Type().String()))
}

func (vc *VC) execSlice(x *ssa.Slice, pc string, st *State) {
	if x.Max != nil {
		panic(unsupported("3-index slice"))
	}
	if arr, ok := isPtrToArray(x.X.Type()); ok {
		p := vc.val(x.X)
		n := fmt.Sprint(arr.Len())
		lo, hi := "0", n
		if x.Low != nil {
			lo = vc.val(x.Low)
		}
		if x.High != nil {
			hi = vc.val(x.High)
		}
		if x.Low != nil || x.High != nil {
			vc.oblige("slice", "", pc, and(sx("<=", "0", lo), sx("<=", lo, hi), sx("<=", hi, n)), nil, x.Pos(), "slice bounds")
		}
		vc.setVal(x, sx("mk_slice", sx("l_base", p), lo, sx("-", hi, lo), sx("-", n, lo)))
		return
	}
	if _, ok := x.X.Type().Underlying().(*types.Slice); ok {
		s := vc.val(x.X)
		lo, hi := "0", sx("s_len", s)
		if x.Low != nil {
			lo = vc.val(x.Low)
		}
		if x.High != nil {
			hi = vc.val(x.High)
		}
		vc.oblige("slice", "", pc, and(sx("<=", "0", lo), sx("<=", lo, hi), sx("<=", hi, sx("s_cap", s))), nil, x.Pos(), "slice bounds")
		// slicing a nil slice yields nil
		r := sx("mk_slice", sx("s_arr", s), sx("+", sx("s_off", s), lo), sx("-", hi, lo), sx("-", sx("s_cap", s), lo))
		rn := vc.setVal(x, r)
		vc.assume(pc, fmt.Sprintf("(forall ((i!e Int)) (! (= (elemloc %s i!e) (elemloc %s (+ %s i!e))) :pattern ((elemloc %s i!e))))", rn, s, lo, rn))
		return
	}
	panic(unsupported("Slice of " + x.X.Type().String()))
}

func (vc *VC) execUnOp(x *ssa.UnOp, pc string, st *State) {
	switch x.Op {
	case token.NOT:
		vc.setVal(x, not(vc.val(x.X)))
	case token.SUB:
		v := sx("-", vc.val(x.X))
		vc.overflowCheck(x, v, x.Type(), pc)
		vc.setVal(x, v)
	case token.MUL: // load
		if g, ok := x.X.(*ssa.Global); ok && g.Name() == "init$guard" {
			// package initializer: verified for its one real execution
			vc.setVal(x, "false")
			return
		}
		p := vc.val(x.X)
		elemT := x.X.Type().Underlying().(*types.Pointer).Elem()
		if g := vc.guardOf(x.X); g != nil {
			vc.obligeGuard(g, pc, st, x.Pos(), "read of "+g.Var+"."+g.Field)
			vc.guarded[x] = g
		}
		// loads through pointers produced by FieldAddr/IndexAddr/Alloc/Global are known non-nil; others need a check
		switch x.X.(type) {
		case *ssa.FieldAddr, *ssa.IndexAddr, *ssa.Alloc, *ssa.Global, *ssa.FreeVar:
		default:
			vc.oblige("nil", "", pc, not(eq(p, nilLoc)), nil, x.Pos(), "load through nil pointer")
		}
		v := vc.setVal(x, vc.loadThrough(st, x.X, p, elemT))
		vc.assume(pc, vc.typeInv(st, v, elemT))
	default:
		panic(unsupported("unary " + x.Op.String()))
	}
}

func isString(t types.Type) bool {
	b, ok := t.Underlying().(*types.Basic)
	return ok && b.Info()&types.IsString != 0
}
func isInteger(t types.Type) bool {
	b, ok := t.Underlying().(*types.Basic)
	return ok && b.Info()&types.IsInteger != 0
}
func isBool(t types.Type) bool {
	b, ok := t.Underlying().(*types.Basic)
	return ok && b.Info()&types.IsBoolean != 0
}

func (vc *VC) overflowCheck(v ssa.Value, term string, t types.Type, pc string) {
	if b, ok := t.Underlying().(*types.Basic); ok && b.Info()&types.IsInteger != 0 {
		lo, hi := intRange(b)
		vc.oblige("overflow", "", pc, and(sx("<=", lo, term), sx("<=", term, hi)), nil, v.Pos(), "integer overflow")
	}
}

// isIntLit: a decimal literal, possibly negated
func isIntLit(s string) bool {
	if strings.HasPrefix(s, "(- ") && strings.HasSuffix(s, ")") {
		s = s[3 : len(s)-1]
	}
	if s == "" {
		return false
	}
	for _, c := range s {
		if c < '0' || c > '9' {
			return false
		}
	}
	return true
}

// mulTerm keeps the solver inside linear arithmetic: a product of two non-literal terms becomes the
// uninterpreted nlmul (prelude: commutative, zero, one, sign, lower bound). z3's nonlinear engine
// produced an unsound "unsat" on such a goal (DESIGN.md, false-pass F1), so it is never invoked.
func mulTerm(a, b string) string {
	if isIntLit(a) || isIntLit(b) {
		return sx("*", a, b)
	}
	if c, x, y, ok := splitIte(b); ok && isIntLit(x) && isIntLit(y) {
		return sx("ite", c, sx("*", a, x), sx("*", a, y))
	}
	if c, x, y, ok := splitIte(a); ok && isIntLit(x) && isIntLit(y) {
		return sx("ite", c, sx("*", x, b), sx("*", y, b))
	}
	return sx("nlmul", a, b)
}

// splitIte decomposes "(ite c x y)" into its three top-level arguments.
func splitIte(s string) (c, x, y string, ok bool) {
	if !strings.HasPrefix(s, "(ite ") || !strings.HasSuffix(s, ")") {
		return
	}
	body := s[5 : len(s)-1]
	var parts []string
	d, start := 0, 0
	for i := 0; i < len(body); i++ {
		switch body[i] {
		case '(':
			d++
		case ')':
			d--
		case ' ':
			if d == 0 {
				parts = append(parts, body[start:i])
				start = i + 1
			}
		}
	}
	parts = append(parts, body[start:])
	if len(parts) != 3 {
		return
	}
	return parts[0], parts[1], parts[2], true
}

func truncDiv(x, y string) string {
	if isIntLit(y) && !strings.HasPrefix(y, "(-") && y != "0" {
		return sx("ite", sx(">=", x, "0"), sx("div", x, y), sx("-", sx("div", sx("-", x), y)))
	}
	return sx("ite", sx(">=", x, "0"),
		sx("ite", sx(">", y, "0"), sx("div", x, y), sx("-", sx("div", x, sx("-", y)))),
		sx("ite", sx(">", y, "0"), sx("-", sx("div", sx("-", x), y)), sx("div", sx("-", x), sx("-", y))))
}

func (vc *VC) execBinOp(x *ssa.BinOp, pc string, st *State) {
	a, b := vc.val(x.X), vc.val(x.Y)
	t := x.X.Type()
	switch x.Op {
	case token.ADD:
		if isString(t) {
			vc.setVal(x, sx("cat", a, b))
			return
		}
		v := sx("+", a, b)
		vc.overflowCheck(x, v, x.Type(), pc)
		vc.setVal(x, v)
	case token.SUB:
		v := sx("-", a, b)
		vc.overflowCheck(x, v, x.Type(), pc)
		vc.setVal(x, v)
	case token.MUL:
		v := mulTerm(a, b)
		vc.overflowCheck(x, v, x.Type(), pc)
		vc.setVal(x, v)
	case token.QUO:
		vc.oblige("divzero", "", pc, not(eq(b, "0")), nil, x.Pos(), "division by zero")
		vc.setVal(x, truncDiv(a, b))
	case token.REM:
		vc.oblige("divzero", "", pc, not(eq(b, "0")), nil, x.Pos(), "division by zero")
		vc.setVal(x, sx("-", a, mulTerm(b, truncDiv(a, b))))
	case token.LSS:
		vc.cmpOp(x, "<", a, b, t)
	case token.LEQ:
		vc.cmpOp(x, "<=", a, b, t)
	case token.GTR:
		vc.cmpOp(x, ">", a, b, t)
	case token.GEQ:
		vc.cmpOp(x, ">=", a, b, t)
	case token.EQL:
		vc.setVal(x, vc.eqTerm(a, b, t, x, pc))
	case token.NEQ:
		vc.setVal(x, not(vc.eqTerm(a, b, t, x, pc)))
	case token.LAND, token.AND:
		if isBool(t) {
			vc.setVal(x, and(a, b))
			return
		}
		panic(unsupported("bitwise and"))
	case token.LOR, token.OR:
		if isBool(t) {
			vc.setVal(x, or(a, b))
			return
		}
		panic(unsupported("bitwise or"))
	default:
		panic(unsupported("binary " + x.Op.String()))
	}
}

func (vc *VC) cmpOp(x *ssa.BinOp, op, a, b string, t types.Type) {
	if !isInteger(t) {
		panic(unsupported("ordered comparison on " + t.String()))
	}
	vc.setVal(x, sx(op, a, b))
}

// eqTerm: Go == on values of type t.
func (vc *VC) eqTerm(a, b string, t types.Type, x *ssa.BinOp, pc string) string {
	switch t.Underlying().(type) {
	case *types.Slice:
		// only comparison with nil is legal
		if c, ok := x.Y.(*ssa.Const); ok && c.Value == nil {
			return eq(sx("s_arr", a), "0")
		}
		if c, ok := x.X.(*ssa.Const); ok && c.Value == nil {
			return eq(sx("s_arr", b), "0")
		}
		panic(unsupported("slice comparison"))
	case *types.Interface:
		// comparison with nil: only the dynamic type matters
		if c, ok := x.Y.(*ssa.Const); ok && c.Value == nil {
			return eq(sx("i_dyn", a), "T_nil")
		}
		if c, ok := x.X.(*ssa.Const); ok && c.Value == nil {
			return eq(sx("i_dyn", b), "T_nil")
		}
		// interface equality panics when both hold the same non-comparable dynamic type
		vc.oblige("ifacecmp", "", pc, implies(eq(sx("i_dyn", a), sx("i_dyn", b)), vc.comparable(sx("i_dyn", a))), nil, x.Pos(), "comparing interface values of a non-comparable dynamic type panics")
		return sx("iface_eq", a, b)
	case *types.Signature:
		if c, ok := x.Y.(*ssa.Const); ok && c.Value == nil {
			return eq(a, "fn_nil")
		}
		if c, ok := x.X.(*ssa.Const); ok && c.Value == nil {
			return eq(b, "fn_nil")
		}
		panic(unsupported("func comparison"))
	case *types.Map:
		return eq(a, b)
	}
	return eq(a, b)
}

func (vc *VC) comparable(ty string) string {
	vc.enc.Declare("comparable_t", "(declare-fun comparable_t (Type) Bool)")
	return sx("comparable_t", ty)
}

func (vc *VC) execConvert(x *ssa.Convert, pc string, st *State) {
	from, to := x.X.Type(), x.Type()
	v := vc.val(x.X)
	switch {
	case isInteger(from) && isInteger(to):
		vc.overflowCheck(x, v, to, pc)
		vc.setVal(x, v)
	case isString(to) && isInteger(from):
		vc.enc.Declare("sf_runeStr", "(declare-fun sf_runeStr (Int) Str)")
		vc.usedFns["runeStr"] = true
		vc.setVal(x, sx("sf_runeStr", v))
	case isString(to):
		if sl, ok := from.Underlying().(*types.Slice); ok && isInteger(sl.Elem()) {
			if b := sl.Elem().Underlying().(*types.Basic); b.Kind() == types.Uint8 {
				// string(bytes): fresh Str with pointwise content
				n := "v_" + x.Name()
				vc.declare(n, "Str")
				vc.vals[x] = n
				h := vc.heapGet(st, vc.enc.HeapFor(sl.Elem()))
				vc.assume(pc, eq(sx("slen", n), sx("s_len", v)))
				vc.assume(pc, fmt.Sprintf("(forall ((k!c Int)) (! (=> (and (<= 0 k!c) (< k!c (s_len %s))) (= (sat %s k!c) (select %s (elemloc %s k!c)))) :pattern ((sat %s k!c))))", v, n, h, v, n))
				return
			}
		}
		panic(unsupported("convert to string from " + from.String()))
	case isString(from):
		if sl, ok := to.Underlying().(*types.Slice); ok {
			if b, ok := sl.Elem().Underlying().(*types.Basic); ok && b.Kind() == types.Uint8 {
				id := vc.allocID(st)
				r := vc.setVal(x, sx("mk_slice", id, "0", sx("slen", v), sx("slen", v)))
				hname := vc.enc.HeapFor(sl.Elem())
				h := vc.heapGet(st, hname)
				vc.assume(pc, fmt.Sprintf("(forall ((k!c Int)) (! (=> (and (<= 0 k!c) (< k!c (slen %s))) (= (select %s (elemloc %s k!c)) (sat %s k!c))) :pattern ((select %s (elemloc %s k!c)))))", v, h, r, v, h, r))
				if vc.w.cs.SpecFuncs["bytesStr"] != nil {
					// the text of the fresh byte slice is the string it was converted from
					vc.enc.Declare("sf_bytesStr", "(declare-fun sf_bytesStr ((Array Loc Int) Slice) Str)")
					vc.usedFns["bytesStr"] = true
					vc.assume(pc, eq(sx("sf_bytesStr", h, r), v))
				}
				return
			}
		}
		panic(unsupported("convert from string to " + to.String()))
	default:
		panic(unsupported("convert " + from.String() + " -> " + to.String()))
	}
}

func (vc *VC) execTypeAssert(x *ssa.TypeAssert, pc string, st *State) {
	v := vc.val(x.X)
	at := x.AssertedType
	var ok, res string
	if it, isI := at.Underlying().(*types.Interface); isI {
		if it.NumMethods() == 0 {
			ok = not(eq(sx("i_dyn", v), "T_nil"))
		} else {
			vc.registerImplementers(at, it)
			p := vc.enc.ImplPred(typeStr(at), it)
			ok = sx(p, sx("i_dyn", v))
		}
		res = v
	} else {
		ok = eq(sx("i_dyn", v), vc.enc.TypeConst(at))
		res = vc.enc.Unbox(vc.enc.SortOf(at), sx("i_val", v))
	}
	if _, isI := at.Underlying().(*types.Interface); !isI {
		// well-formed interface value: a payload of dynamic type T is a boxed value of T's sort
		srt := vc.enc.SortOf(at)
		vc.assume(pc, implies(ok, eq(sx("i_val", v), vc.enc.Box(srt, vc.enc.Unbox(srt, sx("i_val", v))))))
	}
	if x.CommaOk {
		okn := vc.define("ok_"+x.Name(), "Bool", ok)
		rn := vc.define("ta_"+x.Name(), vc.enc.SortOf(at), ite(okn, res, vc.enc.Zero(at)))
		vc.assume(pc, implies(okn, vc.typeInv(st, rn, at)))
		vc.tuples[x] = []string{rn, okn}
		return
	}
	vc.oblige("typeassert", "", pc, ok, nil, x.Pos(), "unchecked type assertion")
	r := vc.setVal(x, res)
	vc.assume(pc, vc.typeInv(st, r, at))
}

func (vc *VC) checkGlobalStore(x *ssa.Store, pc string) {
	// a store whose address derives from a package-level variable: C16 frame obligation
	var root ssa.Value = x.Addr
	for {
		switch y := root.(type) {
		case *ssa.FieldAddr:
			root = y.X
			continue
		case *ssa.IndexAddr:
			root = y.X
			continue
		}
		break
	}
	if g, ok := root.(*ssa.Global); ok {
		if gd := vc.guardOf(x.Addr); gd != nil {
			vc.obligeGuard(gd, pc, vc.curState, x.Pos(), "write of "+gd.Var+"."+gd.Field)
			return
		}
		if vc.fn.Name() == "init" && vc.fn.Synthetic != "" || isInitFunc(vc.fn) {
			return
		}
		vc.oblige("globalstore", g.Name(), pc, "false", []string{"C16"}, x.Pos(), "store to package-level variable "+g.String()+" outside init")
	}
}

// guardOf: the guard directive covering the address (a package-level variable or one of its fields).
func (vc *VC) guardOf(addr ssa.Value) *Guard {
	field := ""
	if fa, ok := addr.(*ssa.FieldAddr); ok {
		st := fa.X.Type().Underlying().(*types.Pointer).Elem().Underlying().(*types.Struct)
		field = st.Field(fa.Field).Name()
		addr = fa.X
	}
	g, ok := addr.(*ssa.Global)
	if !ok || g.Pkg == nil {
		return nil
	}
	for _, gd := range vc.w.cs.Guards {
		if gd.Pkg == g.Pkg.Pkg.Path() && gd.Var == g.Name() && gd.Field == field {
			return gd
		}
	}
	return nil
}

func (vc *VC) obligeGuard(g *Guard, pc string, st *State, pos token.Pos, what string) {
	if vc.w.cs.GhostByNm[g.Ghost] == nil {
		specFail("guard: unknown ghost %s", g.Ghost)
	}
	vc.oblige("guard", g.Var+"."+g.Field, pc, vc.ghostGet(st, g.Ghost), g.Tags, pos, what+" requires "+g.Ghost+" (lock discipline)")
}

// guardedUse: map operations on a map loaded from a guarded variable need the guard too.
func (vc *VC) guardedUse(m ssa.Value, pc string, st *State, pos token.Pos, what string) {
	if g := vc.guarded[m]; g != nil {
		vc.obligeGuard(g, pc, st, pos, what+" on "+g.Var+"."+g.Field)
	}
}

func isInitFunc(fn *ssa.Function) bool {
	n := fn.Name()
	if n == "init" {
		return true
	}
	if len(n) > 5 && n[:5] == "init#" {
		return true
	}
	return false
}


// registerImplementers: for an interface with unexported methods (implementable only in its own
// package) make sure every implementing named type of that package has a type constant.
func (vc *VC) registerImplementers(at types.Type, it *types.Interface) {
	n, ok := at.(*types.Named)
	if !ok || n.Obj().Pkg() == nil {
		return
	}
	closed := false
	for i := 0; i < it.NumMethods(); i++ {
		if !it.Method(i).Exported() {
			closed = true
		}
	}
	if !closed {
		return
	}
	sc := n.Obj().Pkg().Scope()
	for _, name := range sc.Names() {
		tn, ok := sc.Lookup(name).(*types.TypeName)
		if !ok {
			continue
		}
		t := tn.Type()
		if _, isI := t.Underlying().(*types.Interface); isI {
			continue
		}
		if types.Implements(t, it) {
			vc.enc.TypeConst(t)
		}
		if pt := types.NewPointer(t); types.Implements(pt, it) {
			vc.enc.TypeConst(pt)
		}
	}
}
