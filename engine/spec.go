package main

// Specification expression language (DESIGN.md Appendix A): lexer, parser, AST.

import (
	"fmt"
	"strconv"
	"strings"
	"unicode"
)

type tokKind int

const (
	tEOF tokKind = iota
	tIdent
	tInt
	tStr
	tChar
	tOp
)

type stok struct {
	k   tokKind
	s   string
	pos int
}

func lex(src string) ([]stok, error) {
	var out []stok
	i := 0
	for i < len(src) {
		c := src[i]
		switch {
		case c == ' ' || c == '\t' || c == '\n' || c == '\r':
			i++
		case unicode.IsLetter(rune(c)) || c == '_':
			j := i
			for j < len(src) && (unicode.IsLetter(rune(src[j])) || unicode.IsDigit(rune(src[j])) || src[j] == '_' || src[j] == '#') {
				j++
			}
			out = append(out, stok{tIdent, src[i:j], i})
			i = j
		case c >= '0' && c <= '9':
			j := i
			for j < len(src) && (src[j] >= '0' && src[j] <= '9' || src[j] == 'x' || (src[j] >= 'a' && src[j] <= 'f') || (src[j] >= 'A' && src[j] <= 'F')) {
				j++
			}
			out = append(out, stok{tInt, src[i:j], i})
			i = j
		case c == '"':
			j := i + 1
			for j < len(src) && src[j] != '"' {
				if src[j] == '\\' {
					j++
				}
				j++
			}
			if j >= len(src) {
				return nil, fmt.Errorf("unterminated string at %d", i)
			}
			s, err := strconv.Unquote(src[i : j+1])
			if err != nil {
				return nil, fmt.Errorf("bad string literal %s: %v", src[i:j+1], err)
			}
			out = append(out, stok{tStr, s, i})
			i = j + 1
		case c == '\'':
			j := i + 1
			for j < len(src) && src[j] != '\'' {
				if src[j] == '\\' {
					j++
				}
				j++
			}
			if j >= len(src) {
				return nil, fmt.Errorf("unterminated char at %d", i)
			}
			r, _, _, err := strconv.UnquoteChar(src[i+1:j], '\'')
			if err != nil {
				return nil, fmt.Errorf("bad char literal: %v", err)
			}
			out = append(out, stok{tChar, strconv.Itoa(int(r)), i})
			i = j + 1
		default:
			ops := []string{"<==>", "===", "==>", "::", "==", "!=", "<=", ">=", "&&", "||", ".(", "[]"}
			matched := false
			for _, op := range ops {
				if strings.HasPrefix(src[i:], op) {
					out = append(out, stok{tOp, op, i})
					i += len(op)
					matched = true
					break
				}
			}
			if matched {
				continue
			}
			if strings.ContainsRune("+-*/%<>!()[]{}.,:&|?", rune(c)) {
				out = append(out, stok{tOp, string(c), i})
				i++
				continue
			}
			return nil, fmt.Errorf("unexpected character %q at %d in %q", c, i, src)
		}
	}
	out = append(out, stok{tEOF, "", len(src)})
	return out, nil
}

// Spec AST
type SExpr interface{ String() string }

type (
	SInt   struct{ V string }
	SBool  struct{ V bool }
	SNil   struct{}
	SStr   struct{ V string }
	SIdent struct{ Name string }
	SUn    struct {
		Op string
		X  SExpr
	}
	SBin struct {
		Op   string
		X, Y SExpr
	}
	SField struct {
		X    SExpr
		Name string
	}
	SIndex struct{ X, I SExpr }
	SSlice struct{ X, Lo, Hi SExpr } // Lo/Hi may be nil
	SCall  struct {
		Fn   string
		Args []SExpr
	}
	SOld    struct{ X SExpr }
	SAssert struct { // x.(T)
		X SExpr
		T *STypeExpr
	}
	SQuant struct {
		Forall   bool
		Vars     []SParam
		Triggers [][]SExpr
		Body     SExpr
	}
	SIte    struct{ C, A, B SExpr }
	STypeOf struct{ T *STypeExpr } // type[T] : the Type constant
	SHeap   struct{ T *STypeExpr } // heap[T] : the heap array of leaf type T in the current state
	SAddr   struct{ X SExpr }      // &lvalue
)

type SParam struct {
	Name string
	T    *STypeExpr
}

// STypeExpr: textual type: optional stars / [] prefixes and a (qualified) name
type STypeExpr struct {
	Field string // third component of pkg.Type.field (heap/loc designators)
	Raw   string // raw SMT sort text
	Ptr   int
	Slice bool // []Elem (Ptr applies to elem when Slice)
	Pkg   string
	Name  string
	Elem  *STypeExpr
}

func (t *STypeExpr) String() string {
	if t == nil {
		return "<nil>"
	}
	if t.Raw != "" {
		return t.Raw
	}
	if t.Slice {
		return "[]" + t.Elem.String()
	}
	s := strings.Repeat("*", t.Ptr)
	if t.Pkg != "" {
		s += t.Pkg + "."
	}
	return s + t.Name
}

func (e SInt) String() string   { return e.V }
func (e SBool) String() string  { return fmt.Sprint(e.V) }
func (e SNil) String() string   { return "nil" }
func (e SStr) String() string   { return strconv.Quote(e.V) }
func (e SIdent) String() string { return e.Name }
func (e SUn) String() string    { return e.Op + e.X.String() }
func (e SBin) String() string   { return "(" + e.X.String() + " " + e.Op + " " + e.Y.String() + ")" }
func (e SField) String() string { return e.X.String() + "." + e.Name }
func (e SIndex) String() string { return e.X.String() + "[" + e.I.String() + "]" }
func (e SSlice) String() string { return e.X.String() + "[:]" }
func (e SCall) String() string {
	var a []string
	for _, x := range e.Args {
		a = append(a, x.String())
	}
	return e.Fn + "(" + strings.Join(a, ", ") + ")"
}
func (e SOld) String() string    { return "old(" + e.X.String() + ")" }
func (e SAssert) String() string { return e.X.String() + ".(" + e.T.String() + ")" }
func (e SQuant) String() string {
	q := "exists"
	if e.Forall {
		q = "forall"
	}
	var vs []string
	for _, v := range e.Vars {
		vs = append(vs, v.Name+" "+v.T.String())
	}
	return q + " " + strings.Join(vs, ", ") + " :: " + e.Body.String()
}
func (e SIte) String() string    { return "(" + e.C.String() + " ? " + e.A.String() + " : " + e.B.String() + ")" }
func (e STypeOf) String() string { return "type[" + e.T.String() + "]" }
func (e SHeap) String() string   { return "heap[" + e.T.String() + "]" }
func (e SAddr) String() string   { return "&" + e.X.String() }

type parser struct {
	toks []stok
	p    int
	src  string
}

func parseSpecExpr(src string) (e SExpr, err error) {
	toks, err := lex(src)
	if err != nil {
		return nil, err
	}
	ps := &parser{toks: toks, src: src}
	defer func() {
		if r := recover(); r != nil {
			if pe, ok := r.(parseErr); ok {
				err = fmt.Errorf("%s (in %q)", pe.msg, src)
				return
			}
			panic(r)
		}
	}()
	e = ps.expr()
	if ps.peek().k != tEOF {
		ps.fail("unexpected %q", ps.peek().s)
	}
	return e, nil
}

type parseErr struct{ msg string }

func (p *parser) fail(f string, a ...interface{}) {
	panic(parseErr{fmt.Sprintf(f, a...) + fmt.Sprintf(" at offset %d", p.peek().pos)})
}
func (p *parser) peek() stok { return p.toks[p.p] }
func (p *parser) next() stok { t := p.toks[p.p]; p.p++; return t }
func (p *parser) isOp(s string) bool {
	t := p.peek()
	return t.k == tOp && t.s == s
}
func (p *parser) isIdent(s string) bool {
	t := p.peek()
	return t.k == tIdent && t.s == s
}
func (p *parser) expectOp(s string) {
	if !p.isOp(s) {
		p.fail("expected %q, got %q", s, p.peek().s)
	}
	p.next()
}

func (p *parser) expr() SExpr {
	if p.isIdent("forall") || p.isIdent("exists") {
		return p.quant()
	}
	return p.iff()
}

func (p *parser) quant() SExpr {
	q := SQuant{Forall: p.next().s == "forall"}
	for {
		name := p.next()
		if name.k != tIdent {
			p.fail("expected bound variable name")
		}
		ty := p.typeExpr()
		q.Vars = append(q.Vars, SParam{name.s, ty})
		if p.isOp(",") {
			p.next()
			continue
		}
		break
	}
	p.expectOp("::")
	for p.isOp("{") {
		p.next()
		var trig []SExpr
		for {
			trig = append(trig, p.expr())
			if p.isOp(",") {
				p.next()
				continue
			}
			break
		}
		p.expectOp("}")
		q.Triggers = append(q.Triggers, trig)
	}
	q.Body = p.expr()
	return q
}

func (p *parser) typeExpr() *STypeExpr {
	t := &STypeExpr{}
	if p.isOp("(") {
		// raw SMT sort, e.g. (Array Loc Iface)
		depth := 0
		var parts []string
		for {
			tk := p.next()
			if tk.k == tEOF {
				p.fail("unbalanced sort")
			}
			parts = append(parts, tk.s)
			if tk.k == tOp && tk.s == "(" {
				depth++
			} else if tk.k == tOp && tk.s == ")" {
				depth--
				if depth == 0 {
					break
				}
			}
		}
		raw := strings.Join(parts, " ")
		raw = strings.ReplaceAll(raw, "( ", "(")
		raw = strings.ReplaceAll(raw, " )", ")")
		t.Raw = raw
		return t
	}
	if p.isOp("[]") {
		p.next()
		t.Slice = true
		t.Elem = p.typeExpr()
		return t
	}
	if p.isOp("[") { // "[" "]" lexed separately in some contexts
		p.next()
		p.expectOp("]")
		t.Slice = true
		t.Elem = p.typeExpr()
		return t
	}
	for p.isOp("*") {
		p.next()
		t.Ptr++
	}
	id := p.next()
	if id.k != tIdent {
		p.fail("expected type name, got %q", id.s)
	}
	t.Name = id.s
	if p.isOp(".") {
		p.next()
		id2 := p.next()
		if id2.k != tIdent {
			p.fail("expected type name after package")
		}
		t.Pkg = t.Name
		t.Name = id2.s
		if p.isOp(".") {
			p.next()
			id3 := p.next()
			if id3.k != tIdent {
				p.fail("expected field name")
			}
			t.Field = id3.s
		}
	}
	return t
}

func (p *parser) iff() SExpr {
	x := p.impl()
	for p.isOp("<==>") {
		p.next()
		y := p.impl()
		x = SBin{"<==>", x, y}
	}
	return x
}

func (p *parser) impl() SExpr {
	x := p.or()
	if p.isOp("==>") {
		p.next()
		var y SExpr
		if p.isIdent("forall") || p.isIdent("exists") {
			y = p.quant()
		} else {
			y = p.impl()
		}
		return SBin{"==>", x, y}
	}
	if p.isOp("?") {
		p.next()
		a := p.expr()
		p.expectOp(":")
		b := p.expr()
		return SIte{x, a, b}
	}
	return x
}

func (p *parser) or() SExpr {
	x := p.and()
	for p.isOp("||") {
		p.next()
		x = SBin{"||", x, p.and()}
	}
	return x
}

func (p *parser) and() SExpr {
	x := p.cmp()
	for p.isOp("&&") {
		p.next()
		x = SBin{"&&", x, p.cmp()}
	}
	return x
}

func (p *parser) cmp() SExpr {
	if p.isIdent("forall") || p.isIdent("exists") {
		return p.quant()
	}
	x := p.add()
	for _, op := range []string{"===", "==", "!=", "<=", ">=", "<", ">"} {
		if p.isOp(op) {
			p.next()
			y := p.add()
			r := SExpr(SBin{op, x, y})
			// chained comparison a <= b < c
			for _, op2 := range []string{"<=", "<", ">=", ">"} {
				if p.isOp(op2) {
					p.next()
					z := p.add()
					r = SBin{"&&", r, SBin{op2, y, z}}
					y = z
				}
			}
			return r
		}
	}
	return x
}

func (p *parser) add() SExpr {
	x := p.mul()
	for p.isOp("+") || p.isOp("-") {
		op := p.next().s
		x = SBin{op, x, p.mul()}
	}
	return x
}

func (p *parser) mul() SExpr {
	x := p.unary()
	for p.isOp("*") || p.isOp("/") || p.isOp("%") {
		op := p.next().s
		x = SBin{op, x, p.unary()}
	}
	return x
}

func (p *parser) unary() SExpr {
	if p.isOp("!") {
		p.next()
		return SUn{"!", p.unary()}
	}
	if p.isOp("-") {
		p.next()
		return SUn{"-", p.unary()}
	}
	if p.isOp("&") {
		p.next()
		return SAddr{p.unary()}
	}
	return p.postfix()
}

func (p *parser) postfix() SExpr {
	x := p.primary()
	for {
		switch {
		case p.isOp(".("):
			p.next()
			t := p.typeExpr()
			p.expectOp(")")
			x = SAssert{x, t}
		case p.isOp("."):
			p.next()
			id := p.next()
			if id.k != tIdent {
				p.fail("expected field name")
			}
			x = SField{x, id.s}
		case p.isOp("["):
			p.next()
			if p.isOp(":") {
				p.next()
				var hi SExpr
				if !p.isOp("]") {
					hi = p.expr()
				}
				p.expectOp("]")
				x = SSlice{x, nil, hi}
				continue
			}
			i := p.expr()
			if p.isOp(":") {
				p.next()
				var hi SExpr
				if !p.isOp("]") {
					hi = p.expr()
				}
				p.expectOp("]")
				x = SSlice{x, i, hi}
				continue
			}
			p.expectOp("]")
			x = SIndex{x, i}
		default:
			return x
		}
	}
}

func (p *parser) primary() SExpr {
	t := p.next()
	switch t.k {
	case tInt:
		n, err := strconv.ParseInt(t.s, 0, 64)
		if err != nil {
			p.fail("bad int %q", t.s)
		}
		return SInt{strconv.FormatInt(n, 10)}
	case tChar:
		return SInt{t.s}
	case tStr:
		return SStr{t.s}
	case tIdent:
		switch t.s {
		case "true":
			return SBool{true}
		case "false":
			return SBool{false}
		case "nil":
			return SNil{}
		case "old":
			p.expectOp("(")
			x := p.expr()
			p.expectOp(")")
			return SOld{x}
		case "type":
			if p.isOp("[") {
				p.next()
				ty := p.typeExpr()
				p.expectOp("]")
				return STypeOf{ty}
			}
		case "heap":
			if p.isOp("[") {
				p.next()
				ty := p.typeExpr()
				p.expectOp("]")
				return SHeap{ty}
			}
		}
		if p.isOp("(") {
			p.next()
			var args []SExpr
			if !p.isOp(")") {
				for {
					args = append(args, p.expr())
					if p.isOp(",") {
						p.next()
						continue
					}
					break
				}
			}
			p.expectOp(")")
			return SCall{t.s, args}
		}
		return SIdent{t.s}
	case tOp:
		if t.s == "(" {
			x := p.expr()
			p.expectOp(")")
			return x
		}
	}
	p.p--
	p.fail("unexpected stok %q", t.s)
	return nil
}
