package main

// Evaluation of specification expressions to SMT terms in a given state.

import (
	"fmt"
	"os"
	"runtime/debug"
	"sort"
	"go/constant"
	"go/types"
	"strings"

	"golang.org/x/tools/go/ssa"
)

type SpecVal struct {
	T    string
	Sort string
	GoT  types.Type // nil for ghost sorts
	Addr string     // location when the value is an addressable heap cell ("" otherwise)
	Heap string     // heap array of an addressable non-struct cell
	Pkg  *types.Package
}

type specErr struct{ msg string }

func specFail(f string, a ...interface{}) {
	if os.Getenv("GOVC_TRACE") != "" {
		fmt.Fprintf(os.Stderr, "specFail: %s\n%s\n", fmt.Sprintf(f, a...), debug.Stack())
	}
	panic(specErr{fmt.Sprintf(f, a...)})
}

type Env struct {
	vc    *VC
	st    *State
	old   *State
	vars  map[string]SpecVal
	local func(name string) (SpecVal, bool) // resolves source-level locals
	pkg   *types.Package
	depth int
	blk   *ssa.BasicBlock // program point (for label availability)
}

type labelUnavailable struct{ name string }

type stateLabel struct {
	st    *State
	blk   *ssa.BasicBlock
	vars  map[string]SpecVal                 // hint variables at the label (arg0.., res0..)
	local func(name string) (SpecVal, bool) // source-level locals as of the label
}

func (e *Env) with(vars map[string]SpecVal) *Env {
	n := *e
	n.vars = map[string]SpecVal{}
	for k, v := range e.vars {
		n.vars[k] = v
	}
	for k, v := range vars {
		n.vars[k] = v
	}
	return &n
}

func (vc *VC) baseEnv(st, old *State) *Env {
	e := &Env{vc: vc, st: st, old: old, vars: map[string]SpecVal{}, pkg: vc.pkg}
	for k, v := range vc.params {
		e.vars[k] = v
	}
	return e
}

func (vc *VC) goVal(t string, ty types.Type) SpecVal {
	return SpecVal{T: t, Sort: vc.enc.SortOf(ty), GoT: ty}
}

func ghostVal(t, sort string) SpecVal { return SpecVal{T: t, Sort: sort} }

func (vc *VC) evalBool(x SExpr, env *Env) string {
	v := vc.eval(x, env)
	if v.Sort != "Bool" {
		specFail("expected Bool, got %s in %s", v.Sort, x)
	}
	return v.T
}

func (vc *VC) evalInt(x SExpr, env *Env) string {
	v := vc.eval(x, env)
	if v.Sort != "Int" {
		specFail("expected Int, got %s in %s", v.Sort, x)
	}
	return v.T
}

func derefType(t types.Type) (types.Type, bool) {
	if t == nil {
		return nil, false
	}
	if p, ok := t.Underlying().(*types.Pointer); ok {
		return p.Elem(), true
	}
	return nil, false
}

func (vc *VC) eval(x SExpr, env *Env) SpecVal {
	switch e := x.(type) {
	case SInt:
		return ghostVal(bigLit(e.V), "Int")
	case SBool:
		if e.V {
			return ghostVal("true", "Bool")
		}
		return ghostVal("false", "Bool")
	case SStr:
		return SpecVal{T: vc.enc.StrLit(e.V), Sort: "Str", GoT: types.Typ[types.String]}
	case SNil:
		return SpecVal{T: "nil", Sort: "Nil"}
	case SIdent:
		return vc.evalIdent(e.Name, env)
	case SOld:
		n := *env
		n.st = env.old
		return vc.eval(e.X, &n)
	case SUn:
		v := vc.eval(e.X, env)
		switch e.Op {
		case "!":
			if v.Sort != "Bool" {
				specFail("! on %s", v.Sort)
			}
			return ghostVal(not(v.T), "Bool")
		case "-":
			return ghostVal(sx("-", v.T), "Int")
		}
	case SBin:
		return vc.evalBin(e, env)
	case SIte:
		c := vc.evalBool(e.C, env)
		a := vc.eval(e.A, env)
		b := vc.eval(e.B, env)
		a, b = vc.unifyNil(a, b)
		r := a
		r.T = ite(c, a.T, b.T)
		r.Addr = ""
		return r
	case SField:
		return vc.evalField(e, env)
	case SIndex:
		return vc.evalIndex(e, env)
	case SSlice:
		s := vc.eval(e.X, env)
		if s.Sort != "Slice" {
			specFail("slicing non-slice %s", e.X)
		}
		lo := "0"
		hi := sx("s_len", s.T)
		if e.Lo != nil {
			lo = vc.evalInt(e.Lo, env)
		}
		if e.Hi != nil {
			hi = vc.evalInt(e.Hi, env)
		}
		r := s
		r.Addr = ""
		r.T = sx("mk_slice", sx("s_arr", s.T), sx("+", sx("s_off", s.T), lo), sx("-", hi, lo), sx("-", sx("s_cap", s.T), lo))
		return r
	case SCall:
		return vc.evalCall(e, env)
	case SAssert:
		v := vc.eval(e.X, env)
		if v.Sort != "Iface" {
			specFail("type assertion on non-interface %s", e.X)
		}
		gt, gs, err := vc.w.resolveType(e.T, env.pkg)
		if err != nil {
			specFail("%v", err)
		}
		if gt == nil {
			return ghostVal(vc.enc.Unbox(gs, sx("i_val", v.T)), gs)
		}
		if _, isI := gt.Underlying().(*types.Interface); isI {
			return SpecVal{T: v.T, Sort: "Iface", GoT: gt}
		}
		return vc.goVal(vc.enc.Unbox(vc.enc.SortOf(gt), sx("i_val", v.T)), gt)
	case STypeOf:
		gt, _, err := vc.w.resolveType(e.T, env.pkg)
		if err != nil || gt == nil {
			specFail("type[%s]: %v", e.T, err)
		}
		return ghostVal(vc.enc.TypeConst(gt), "Type")
	case SHeap:
		var h string
		if stT, idx, ok := vc.w.resolveFieldHeap(e.T, env.pkg); ok && (e.T.Field != "" || !vc.isTypeName(e.T, env)) {
			h = vc.enc.FieldHeap(stT, idx)
		} else {
			gt, _, err := vc.w.resolveType(e.T, env.pkg)
			if err != nil || gt == nil {
				specFail("heap[%s]: %v", e.T, err)
			}
			if sl, ok := gt.Underlying().(*types.Slice); ok {
				h = vc.enc.HeapFor(sl.Elem())
			} else {
				h = vc.enc.HeapFor(gt)
			}
		}
		return ghostVal(vc.heapGet(env.st, h), fmt.Sprintf("(Array Loc %s)", vc.enc.heaps[h]))
	case SAddr:
		v := vc.eval(e.X, env)
		if v.Addr == "" {
			specFail("& of non-addressable %s", e.X)
		}
		var pt types.Type
		if v.GoT != nil {
			pt = types.NewPointer(v.GoT)
		}
		return SpecVal{T: v.Addr, Sort: "Loc", GoT: pt}
	case SQuant:
		return vc.evalQuant(e, env)
	}
	specFail("cannot evaluate %s", x)
	return SpecVal{}
}

func (vc *VC) unifyNil(a, b SpecVal) (SpecVal, SpecVal) {
	if a.Sort == "Nil" && b.Sort != "Nil" {
		a = vc.nilOf(b)
	}
	if b.Sort == "Nil" && a.Sort != "Nil" {
		b = vc.nilOf(a)
	}
	return a, b
}

func (vc *VC) nilOf(like SpecVal) SpecVal {
	r := like
	r.Addr = ""
	switch like.Sort {
	case "Loc":
		r.T = nilLoc
	case "Slice":
		r.T = nilSlice
	case "Iface":
		r.T = nilIface
	case "Fn":
		r.T = "fn_nil"
	default:
		specFail("nil compared with %s", like.Sort)
	}
	return r
}

func (vc *VC) evalIdent(name string, env *Env) SpecVal {
	if v, ok := env.vars[name]; ok {
		return v
	}
	if env.local != nil {
		if v, ok := env.local(name); ok {
			return v
		}
	}
	if vc.fn != nil {
		// captured variable of a closure: the free variable is the address of the variable's cell
		for _, fv := range vc.fn.FreeVars {
			if fv.Name() == name {
				if pt, ok := fv.Type().Underlying().(*types.Pointer); ok {
					return vc.loadSpec(env.st, vc.val(fv), pt.Elem())
				}
			}
		}
	}
	if g, ok := vc.w.cs.GhostByNm[name]; ok {
		return ghostVal(vc.ghostGet(env.st, name), g.Sort)
	}
	if name == "alloc" {
		return ghostVal(env.st.alloc, "Int")
	}
	// package-level object of the current package
	if env.pkg != nil {
		if obj := env.pkg.Scope().Lookup(name); obj != nil {
			return vc.evalObject(obj, env)
		}
	}
	// zero-arg spec function (constant)
	if sf, ok := vc.w.cs.SpecFuncs[name]; ok && len(sf.Params) == 0 {
		return vc.applySpecFunc(sf, nil, env)
	}
	// package name: marker
	if ps := vc.w.byName[name]; len(ps) > 0 {
		var pick *types.Package
		if env.pkg != nil {
			for _, imp := range env.pkg.Imports() {
				if imp.Name() == name {
					pick = imp
				}
			}
		}
		if pick == nil {
			for _, p := range ps {
				if vc.w.isRepoPkg(p) {
					pick = p
				}
			}
		}
		if pick == nil {
			pick = ps[0]
		}
		return SpecVal{Sort: "Pkg", Pkg: pick}
	}
	if alt, ok := vc.renamed(name); ok && alt != name {
		vc.assumed["rename tolerated: contract name "+name+" bound to "+alt+" (same declaration position)"] = true
		return vc.evalIdent(alt, env)
	}
	specFail("unknown identifier %q", name)
	return SpecVal{}
}

func (vc *VC) evalObject(obj types.Object, env *Env) SpecVal {
	switch o := obj.(type) {
	case *types.Const:
		t := o.Type()
		switch u := t.Underlying().(type) {
		case *types.Basic:
			switch {
			case u.Info()&types.IsInteger != 0:
				return SpecVal{T: bigLit(o.Val().ExactString()), Sort: "Int", GoT: t}
			case u.Info()&types.IsBoolean != 0:
				return ghostVal(fmt.Sprint(constant.BoolVal(o.Val())), "Bool")
			case u.Info()&types.IsString != 0:
				return SpecVal{T: vc.enc.StrLit(constant.StringVal(o.Val())), Sort: "Str", GoT: t}
			}
		}
		specFail("constant %s of unsupported type", o.Name())
	case *types.Var:
		sp := vc.w.pkgs[o.Pkg().Path()]
		if sp == nil {
			specFail("no ssa package for %s", o.Pkg().Path())
		}
		g, ok := sp.Members[o.Name()].(*ssa.Global)
		if !ok {
			specFail("%s is not a global", o.Name())
		}
		loc := vc.globalLoc(g)
		return vc.loadSpec(env.st, loc, o.Type())
	}
	specFail("unsupported package-level object %s", obj.Name())
	return SpecVal{}
}

func (vc *VC) loadSpec(st *State, loc string, t types.Type) SpecVal {
	if _, isStruct := t.Underlying().(*types.Struct); isStruct {
		// lazy: struct lvalue; T is computed on demand by field access; full record if used as value
		return SpecVal{T: vc.loadVal(st, loc, t), Sort: vc.enc.SortOf(t), GoT: t, Addr: loc}
	}
	return SpecVal{T: vc.loadVal(st, loc, t), Sort: vc.enc.SortOf(t), GoT: t, Addr: loc, Heap: vc.enc.HeapFor(t)}
}

func (vc *VC) evalField(e SField, env *Env) SpecVal {
	x := vc.eval(e.X, env)
	if x.Sort == "Pkg" {
		obj := x.Pkg.Scope().Lookup(e.Name)
		if obj == nil {
			specFail("%s.%s not found", x.Pkg.Name(), e.Name)
		}
		return vc.evalObject(obj, env)
	}
	// pseudo fields on ghost sorts
	switch x.Sort {
	case "Slice":
		switch e.Name {
		case "arr":
			return ghostVal(sx("s_arr", x.T), "Int")
		case "off":
			return ghostVal(sx("s_off", x.T), "Int")
		case "len":
			return ghostVal(sx("s_len", x.T), "Int")
		case "cap":
			return ghostVal(sx("s_cap", x.T), "Int")
		}
	case "Loc":
		switch e.Name {
		case "base":
			return ghostVal(sx("l_base", x.T), "Int")
		case "idx":
			return ghostVal(sx("l_idx", x.T), "Int")
		case "path":
			return ghostVal(sx("l_path", x.T), "Int")
		}
	case "Iface":
		switch e.Name {
		case "dyn":
			return ghostVal(sx("i_dyn", x.T), "Type")
		case "val":
			return ghostVal(sx("i_val", x.T), "Any")
		}
	}
	if x.GoT == nil {
		specFail("field %s on ghost value %s", e.Name, e.X)
	}
	obj, index, _ := types.LookupFieldOrMethod(x.GoT, true, env.pkgOf(x.GoT), e.Name)
	fv, ok := obj.(*types.Var)
	if !ok || fv == nil {
		specFail("no field %s in %s", e.Name, x.GoT)
	}
	cur := x
	for _, idx := range index {
		// auto-deref pointers
		if et, isPtr := derefType(cur.GoT); isPtr {
			cur = SpecVal{T: "", Sort: vc.enc.SortOf(et), GoT: et, Addr: cur.T}
		}
		st, ok := cur.GoT.Underlying().(*types.Struct)
		if !ok {
			specFail("field path through non-struct %s", cur.GoT)
		}
		ft := st.Field(idx).Type()
		if cur.Addr != "" {
			loc := sx("fldloc", cur.Addr, fmt.Sprint(idx))
			if _, isStruct := ft.Underlying().(*types.Struct); isStruct {
				cur = SpecVal{T: "", Sort: vc.enc.SortOf(ft), GoT: ft, Addr: loc}
			} else {
				fh := vc.enc.FieldHeap(cur.GoT, idx)
				cur = SpecVal{T: vc.loadLeaf(env.st, fh, loc), Sort: vc.enc.SortOf(ft), GoT: ft, Addr: loc, Heap: fh}
			}
		} else {
			cur = SpecVal{T: sx(vc.enc.structSel(cur.GoT, idx), cur.T), Sort: vc.enc.SortOf(ft), GoT: ft}
		}
	}
	if cur.T == "" {
		cur.T = vc.loadVal(env.st, cur.Addr, cur.GoT)
	}
	return cur
}

func (e *Env) pkgOf(t types.Type) *types.Package {
	if p := pkgOfType(t); p != nil {
		return p
	}
	// unnamed struct (e.g. `var registry struct{...}`): its fields carry the declaring package
	u := t
	if pt, ok := u.Underlying().(*types.Pointer); ok {
		u = pt.Elem()
	}
	if st, ok := u.Underlying().(*types.Struct); ok && st.NumFields() > 0 {
		for i := 0; i < st.NumFields(); i++ {
			if !st.Field(i).Exported() && st.Field(i).Pkg() != nil {
				return st.Field(i).Pkg()
			}
		}
	}
	return e.pkg
}

func (vc *VC) evalIndex(e SIndex, env *Env) SpecVal {
	x := vc.eval(e.X, env)
	switch {
	case x.Sort == "Slice":
		i := vc.evalInt(e.I, env)
		if x.GoT == nil {
			specFail("index on untyped slice %s", e.X)
		}
		et := x.GoT.Underlying().(*types.Slice).Elem()
		loc := sx("elemloc", x.T, i)
		if _, isStruct := et.Underlying().(*types.Struct); isStruct {
			return SpecVal{T: "", Sort: vc.enc.SortOf(et), GoT: et, Addr: loc}
		}
		return vc.loadSpec(env.st, loc, et)
	case x.Sort == "Str":
		i := vc.evalInt(e.I, env)
		return ghostVal(sx("sat", x.T, i), "Int")
	case x.Sort == "Loc" && isMapType(x.GoT):
		// m[k]: the stored value (meaningful where has(m, k))
		x = vc.materialize(x, env)
		h := vc.mapHeap(x.GoT)
		k := vc.materialize(vc.eval(e.I, env), env)
		et := x.GoT.Underlying().(*types.Map).Elem()
		return SpecVal{T: sx("select", sx("select", vc.heapGet(env.st, h+"_val"), x.T), k.T), Sort: vc.enc.SortOf(et), GoT: et}
	case strings.HasPrefix(x.Sort, "(Array "):
		i := vc.eval(e.I, env)
		_, rng := arraySorts(x.Sort)
		return ghostVal(sx("select", x.T, i.T), rng)
	}
	specFail("cannot index %s (sort %s)", e.X, x.Sort)
	return SpecVal{}
}

func isMapType(t types.Type) bool {
	if t == nil {
		return false
	}
	_, ok := t.Underlying().(*types.Map)
	return ok
}

func arraySorts(s string) (string, string) {
	// "(Array A B)" with possibly nested parens
	inner := strings.TrimSuffix(strings.TrimPrefix(s, "(Array "), ")")
	d := 0
	for i, c := range inner {
		switch c {
		case '(':
			d++
		case ')':
			d--
		case ' ':
			if d == 0 {
				return inner[:i], strings.TrimSpace(inner[i+1:])
			}
		}
	}
	return inner, ""
}

func (vc *VC) materialize(v SpecVal, env *Env) SpecVal {
	if v.T == "" && v.Addr != "" {
		v.T = vc.loadVal(env.st, v.Addr, v.GoT)
	}
	return v
}

func (vc *VC) evalBin(e SBin, env *Env) SpecVal {
	switch e.Op {
	case "&&", "||", "==>", "<==>":
		a := vc.evalBool(e.X, env)
		b := vc.evalBool(e.Y, env)
		switch e.Op {
		case "&&":
			return ghostVal(and(a, b), "Bool")
		case "||":
			return ghostVal(or(a, b), "Bool")
		case "==>":
			return ghostVal(implies(a, b), "Bool")
		default:
			return ghostVal(eq(a, b), "Bool")
		}
	}
	a := vc.materialize(vc.eval(e.X, env), env)
	b := vc.materialize(vc.eval(e.Y, env), env)
	switch e.Op {
	case "===":
		a, b = vc.unifyNil(a, b)
		if a.Sort != b.Sort {
			specFail("comparing %s with %s in %s", a.Sort, b.Sort, e)
		}
		return ghostVal(eq(a.T, b.T), "Bool")
	case "==", "!=":
		var r string
		if a.Sort == "Nil" && b.Sort == "Nil" {
			r = "true"
		} else if a.Sort == "Nil" || b.Sort == "Nil" {
			o := a
			if a.Sort == "Nil" {
				o = b
			}
			switch o.Sort {
			case "Loc":
				r = eq(o.T, nilLoc)
			case "Slice":
				r = eq(sx("s_arr", o.T), "0")
			case "Iface":
				r = eq(sx("i_dyn", o.T), "T_nil")
			case "Fn":
				r = eq(o.T, "fn_nil")
			default:
				specFail("nil compared with %s", o.Sort)
			}
		} else {
			if a.Sort != b.Sort {
				specFail("comparing %s with %s in %s", a.Sort, b.Sort, e)
			}
			if a.Sort == "Iface" {
				r = sx("iface_eq", a.T, b.T)
			} else {
				r = eq(a.T, b.T)
			}
		}
		if e.Op == "!=" {
			r = not(r)
		}
		return ghostVal(r, "Bool")
	case "<", "<=", ">", ">=":
		if a.Sort != "Int" || b.Sort != "Int" {
			specFail("ordering on %s/%s in %s", a.Sort, b.Sort, e)
		}
		return ghostVal(sx(e.Op, a.T, b.T), "Bool")
	case "+":
		if a.Sort == "Str" && b.Sort == "Str" {
			return SpecVal{T: sx("cat", a.T, b.T), Sort: "Str", GoT: types.Typ[types.String]}
		}
		fallthrough
	case "-", "*":
		if a.Sort != "Int" || b.Sort != "Int" {
			specFail("arithmetic on %s/%s in %s", a.Sort, b.Sort, e)
		}
		if e.Op == "*" {
			return ghostVal(mulTerm(a.T, b.T), "Int")
		}
		return ghostVal(sx(e.Op, a.T, b.T), "Int")
	case "/":
		return ghostVal(sx("div", a.T, b.T), "Int")
	case "%":
		return ghostVal(sx("mod", a.T, b.T), "Int")
	}
	specFail("unknown operator %s", e.Op)
	return SpecVal{}
}

func (vc *VC) sortOfTypeExpr(te *STypeExpr, env *Env) (types.Type, string) {
	gt, gs, err := vc.w.resolveType(te, env.pkg)
	if err != nil {
		specFail("%v", err)
	}
	if gt != nil {
		return gt, vc.enc.SortOf(gt)
	}
	return nil, gs
}

func (vc *VC) evalQuant(q SQuant, env *Env) SpecVal {
	vars := map[string]SpecVal{}
	var binders []string
	var guards []string
	for _, v := range q.Vars {
		gt, srt := vc.sortOfTypeExpr(v.T, env)
		name := fmt.Sprintf("%s!q%d", v.Name, env.depth)
		vars[v.Name] = SpecVal{T: name, Sort: srt, GoT: gt}
		binders = append(binders, fmt.Sprintf("(%s %s)", name, srt))
		_ = guards
	}
	n := env.with(vars)
	n.depth = env.depth + 1
	body := vc.evalBool(q.Body, n)
	var pats []string
	for _, trig := range q.Triggers {
		var ts []string
		for _, t := range trig {
			tv := vc.materialize(vc.eval(t, n), n)
			ts = append(ts, tv.T)
		}
		pats = append(pats, ":pattern ("+strings.Join(ts, " ")+")")
	}
	kw := "forall"
	if !q.Forall {
		kw = "exists"
	}
	if len(pats) > 0 {
		body = "(! " + body + " " + strings.Join(pats, " ") + ")"
	}
	return ghostVal(fmt.Sprintf("(%s (%s) %s)", kw, strings.Join(binders, " "), body), "Bool")
}

func (vc *VC) evalCall(c SCall, env *Env) SpecVal {
	vc.usedFns[c.Fn] = true
	arg := func(i int) SpecVal {
		if i >= len(c.Args) {
			specFail("%s: too few arguments", c.Fn)
		}
		return vc.materialize(vc.eval(c.Args[i], env), env)
	}
	switch c.Fn {
	case "at":
		// at(L, e): evaluate e in the state saved by `label L`
		id, ok := c.Args[0].(SIdent)
		if !ok || len(c.Args) != 2 {
			specFail("at(Label, expr)")
		}
		lb := vc.labels[id.Name]
		if lb == nil || (env.blk != nil && lb.blk != nil && lb.blk != env.blk && !lb.blk.Dominates(env.blk)) {
			panic(labelUnavailable{id.Name})
		}
		n := *env
		n.st = lb.st
		if lb.local != nil {
			n.local = lb.local
		}
		if len(lb.vars) > 0 {
			merged := map[string]SpecVal{}
			for k, v := range lb.vars {
				merged[k] = v
			}
			for k, v := range env.vars {
				merged[k] = v
			}
			n.vars = merged
		}
		return vc.materialize(vc.eval(c.Args[1], &n), &n)
	case "has":
		// has(m, k): k is a key of map m
		m := arg(0)
		if !isMapType(m.GoT) {
			specFail("has: first argument must be a map")
		}
		h := vc.mapHeap(m.GoT)
		return ghostVal(and(not(eq(m.T, nilLoc)), sx("select", sx("select", vc.heapGet(env.st, h+"_dom"), m.T), arg(1).T)), "Bool")
	case "dom":
		m := arg(0)
		if !isMapType(m.GoT) {
			specFail("dom: argument must be a map")
		}
		h := vc.mapHeap(m.GoT)
		ks, _ := vc.mapSorts(m.GoT)
		return ghostVal(sx("select", vc.heapGet(env.st, h+"_dom"), m.T), fmt.Sprintf("(Array %s Bool)", ks))
	case "len":
		v := arg(0)
		if isMapType(v.GoT) {
			h := vc.mapHeap(v.GoT)
			t := sx("select", vc.heapGet(env.st, h+"_size"), v.T)
			vc.assume("true", and(sx("<=", "0", t), sx("<=", t, MAXLEN)))
			return ghostVal(t, "Int")
		}
		switch v.Sort {
		case "Slice":
			return ghostVal(sx("s_len", v.T), "Int")
		case "Str":
			return ghostVal(sx("slen", v.T), "Int")
		}
		specFail("len of %s", v.Sort)
	case "cap":
		return ghostVal(sx("s_cap", arg(0).T), "Int")
	case "dyn":
		return ghostVal(sx("i_dyn", arg(0).T), "Type")
	case "slen":
		return ghostVal(sx("slen", arg(0).T), "Int")
	case "sat":
		return ghostVal(sx("sat", arg(0).T, arg(1).T), "Int")
	case "cat":
		t := arg(0).T
		for i := 1; i < len(c.Args); i++ {
			t = sx("cat", t, arg(i).T)
		}
		return SpecVal{T: t, Sort: "Str", GoT: types.Typ[types.String]}
	case "base":
		return ghostVal(sx("l_base", arg(0).T), "Int")
	case "allocated":
		v := arg(0)
		switch v.Sort {
		case "Loc":
			return ghostVal(sx("<", sx("l_base", v.T), env.st.alloc), "Bool")
		case "Slice":
			return ghostVal(sx("<", sx("s_arr", v.T), env.st.alloc), "Bool")
		case "Int":
			return ghostVal(sx("<", v.T, env.st.alloc), "Bool")
		}
		specFail("allocated() of %s", v.Sort)
	case "fresh":
		// fresh(x): allocated now, not allocated in the old state
		v := arg(0)
		var b string
		switch v.Sort {
		case "Loc":
			b = sx("l_base", v.T)
		case "Slice":
			b = sx("s_arr", v.T)
		case "Int":
			b = v.T
		default:
			specFail("fresh() of %s", v.Sort)
		}
		return ghostVal(and(sx(">=", b, env.old.alloc), sx("<", b, env.st.alloc)), "Bool")
	case "elemloc":
		return ghostVal(sx("elemloc", arg(0).T, arg(1).T), "Loc")
	case "fldloc":
		return ghostVal(sx("fldloc", arg(0).T, arg(1).T), "Loc")
	case "mkloc":
		return ghostVal(sx("mk_loc", arg(0).T, arg(1).T, arg(2).T), "Loc")
	case "mkiface":
		return SpecVal{T: sx("mk_iface", arg(0).T, arg(1).T), Sort: "Iface"}
	case "box":
		v := arg(0)
		return ghostVal(vc.enc.Box(v.Sort, v.T), "Any")
	case "impl":
		// impl(Type, InterfaceName)
		ty := arg(0)
		id, ok := c.Args[1].(SIdent)
		var te *STypeExpr
		if ok {
			te = &STypeExpr{Name: id.Name}
		} else if f, ok := c.Args[1].(SField); ok {
			te = &STypeExpr{Pkg: f.X.(SIdent).Name, Name: f.Name}
		} else {
			specFail("impl: second argument must name an interface")
		}
		gt, _, err := vc.w.resolveType(te, env.pkg)
		if err != nil || gt == nil {
			specFail("impl: %v", err)
		}
		it, isI := gt.Underlying().(*types.Interface)
		if !isI {
			specFail("impl: %s is not an interface", te)
		}
		vc.registerImplementers(gt, it)
		return ghostVal(sx(vc.enc.ImplPred(typeStr(gt), it), ty.T), "Bool")
	case "ite":
		cnd := arg(0)
		a, b := vc.unifyNil(arg(1), arg(2))
		r := a
		r.T = ite(cnd.T, a.T, b.T)
		r.Addr = ""
		return r
	case "min":
		a, b := arg(0), arg(1)
		return ghostVal(ite(sx("<=", a.T, b.T), a.T, b.T), "Int")
	case "max":
		a, b := arg(0), arg(1)
		return ghostVal(ite(sx(">=", a.T, b.T), a.T, b.T), "Int")
	case "heap":
		// heap(T-as-ident) not supported here; use H[T] via type syntax
	case "comparable":
		return ghostVal(vc.comparable(arg(0).T), "Bool")
	case "store":
		a := arg(0)
		return ghostVal(sx("store", a.T, arg(1).T, arg(2).T), a.Sort)
	}
	if p, ok := vc.w.cs.Preds[c.Fn]; ok {
		if len(c.Args) != len(p.Params) {
			specFail("pred %s: want %d args, got %d", p.Name, len(p.Params), len(c.Args))
		}
		vars := map[string]SpecVal{}
		for i, prm := range p.Params {
			v := vc.materialize(vc.eval(c.Args[i], env), env)
			gt, srt := vc.sortOfTypeExpr(prm.T, &Env{vc: vc, pkg: vc.w.pkgForFile(p.File)})
			if v.Sort == "Nil" {
				v = vc.nilOf(SpecVal{Sort: srt, GoT: gt})
			}
			if v.Sort != srt {
				specFail("pred %s: argument %d has sort %s, want %s", p.Name, i, v.Sort, srt)
			}
			if gt != nil {
				v.GoT = gt
			}
			vars[prm.Name] = v
		}
		if p.Opaque {
			return vc.applyOpaquePred(p, vars, env)
		}
		n := &Env{vc: vc, st: env.st, old: env.old, vars: vars, pkg: vc.w.pkgForFile(p.File), depth: env.depth + 1}
		return ghostVal(vc.evalBool(p.Body, n), "Bool")
	}
	if sf, ok := vc.w.cs.SpecFuncs[c.Fn]; ok {
		var args []SpecVal
		for i := range c.Args {
			args = append(args, arg(i))
		}
		return vc.applySpecFunc(sf, args, env)
	}
	specFail("unknown function %s", c.Fn)
	return SpecVal{}
}

func (vc *VC) applySpecFunc(sf *SpecFunc, args []SpecVal, env *Env) SpecVal {
	fenv := &Env{vc: vc, pkg: vc.w.pkgForFile(sf.File)}
	rt, rs := vc.sortOfTypeExpr(sf.Result, fenv)
	if len(args) != len(sf.Params) {
		specFail("spec %s: want %d args, got %d", sf.Name, len(sf.Params), len(args))
	}
	var sorts, ts []string
	for i, p := range sf.Params {
		gt, srt := vc.sortOfTypeExpr(p.T, fenv)
		a := args[i]
		if a.Sort == "Nil" {
			a = vc.nilOf(SpecVal{Sort: srt, GoT: gt})
		}
		if a.Sort != srt {
			specFail("spec %s: argument %d has sort %s, want %s", sf.Name, i, a.Sort, srt)
		}
		sorts = append(sorts, srt)
		ts = append(ts, a.T)
	}
	if sf.Body != nil && sf.Opaque {
		name := "sf_" + sf.Name
		if !vc.enc.declared[name] {
			vc.enc.Declare(name, fmt.Sprintf("(declare-fun %s (%s) %s)", name, strings.Join(sorts, " "), rs))
			// quantified defining axiom, triggered by the application itself
			vars := map[string]SpecVal{}
			var binders, bts []string
			for i, p := range sf.Params {
				gt, srt := vc.sortOfTypeExpr(p.T, fenv)
				bn := fmt.Sprintf("%s!o", p.Name)
				vars[p.Name] = SpecVal{T: bn, Sort: srt, GoT: gt}
				binders = append(binders, fmt.Sprintf("(%s %s)", bn, sorts[i]))
				bts = append(bts, bn)
			}
			n := &Env{vc: vc, st: vc.entry, old: vc.entry, vars: vars, pkg: fenv.pkg, depth: 50}
			body := vc.materialize(vc.eval(sf.Body, n), n)
			app := sx(name, bts...)
			if len(binders) > 0 {
				vc.axiomAsserts = append(vc.axiomAsserts, fmt.Sprintf("(forall (%s) (! (= %s %s) :pattern (%s)))", strings.Join(binders, " "), app, body.T, app))
			} else {
				vc.axiomAsserts = append(vc.axiomAsserts, eq(app, body.T))
			}
		}
		return SpecVal{T: sx(name, ts...), Sort: rs, GoT: rt}
	}
	if sf.Body != nil && !sf.Rec {
		// defined (non-recursive) spec function: expand
		vars := map[string]SpecVal{}
		for i, p := range sf.Params {
			gt, srt := vc.sortOfTypeExpr(p.T, fenv)
			vars[p.Name] = SpecVal{T: ts[i], Sort: srt, GoT: gt}
		}
		n := &Env{vc: vc, st: env.st, old: env.old, vars: vars, pkg: fenv.pkg, depth: env.depth + 1}
		r := vc.materialize(vc.eval(sf.Body, n), n)
		r.Addr = ""
		return r
	}
	name := "sf_" + sf.Name
	vc.enc.Declare(name, fmt.Sprintf("(declare-fun %s (%s) %s)", name, strings.Join(sorts, " "), rs))
	return SpecVal{T: sx(name, ts...), Sort: rs, GoT: rt}
}

func (w *World) pkgForFile(file string) *types.Package {
	for d, p := range w.pkgDirs {
		if strings.HasPrefix(file, d+"/") && !strings.Contains(file[len(d)+1:], "/") {
			return w.tpkgs[p]
		}
	}
	return nil
}


// opaque predicates: an uninterpreted symbol over the parameters and the heaps/ghosts the body reads,
// with a quantified defining axiom triggered by the application. Two states that agree on those heaps
// give syntactically identical atoms, so preservation across unrelated updates costs nothing.
type opaqueInfo struct {
	name   string
	heaps  []string
	ghosts []string
	alloc  bool
}

func (vc *VC) applyOpaquePred(p *Pred, vars map[string]SpecVal, env *Env) SpecVal {
	info := vc.opaquePreds[p.Name]
	penv := &Env{vc: vc, pkg: vc.w.pkgForFile(p.File)}
	if info == nil {
		ph := &phInfo{heaps: map[string]bool{}, ghosts: map[string]bool{}}
		pst := &State{heap: map[string]string{}, ghost: map[string]string{}, alloc: "a!alloc", ph: ph}
		bvars := map[string]SpecVal{}
		var binders, bts []string
		for _, prm := range p.Params {
			gt, srt := vc.sortOfTypeExpr(prm.T, penv)
			bn := "p!" + prm.Name
			bvars[prm.Name] = SpecVal{T: bn, Sort: srt, GoT: gt}
			binders = append(binders, fmt.Sprintf("(%s %s)", bn, srt))
			bts = append(bts, bn)
		}
		n := &Env{vc: vc, st: pst, old: pst, vars: bvars, pkg: penv.pkg, depth: 60}
		body := vc.evalBool(p.Body, n)
		info = &opaqueInfo{name: "pr_" + p.Name}
		for h := range ph.heaps {
			info.heaps = append(info.heaps, h)
		}
		sort.Strings(info.heaps)
		for g := range ph.ghosts {
			info.ghosts = append(info.ghosts, g)
		}
		sort.Strings(info.ghosts)
		info.alloc = strings.Contains(body, "a!alloc")
		var sorts []string
		for _, b := range p.Params {
			_, srt := vc.sortOfTypeExpr(b.T, penv)
			sorts = append(sorts, srt)
		}
		for _, h := range info.heaps {
			srt := fmt.Sprintf("(Array Loc %s)", vc.enc.heaps[h])
			sorts = append(sorts, srt)
			binders = append(binders, fmt.Sprintf("(h!%s %s)", h, srt))
			bts = append(bts, "h!"+h)
		}
		for _, g := range info.ghosts {
			srt := vc.w.cs.GhostByNm[g].Sort
			sorts = append(sorts, srt)
			binders = append(binders, fmt.Sprintf("(g!%s %s)", g, srt))
			bts = append(bts, "g!"+g)
		}
		if info.alloc {
			sorts = append(sorts, "Int")
			binders = append(binders, "(a!alloc Int)")
			bts = append(bts, "a!alloc")
		}
		vc.enc.Declare(info.name, fmt.Sprintf("(declare-fun %s (%s) Bool)", info.name, strings.Join(sorts, " ")))
		app := sx(info.name, bts...)
		if len(binders) > 0 {
			vc.axiomAsserts = append(vc.axiomAsserts, fmt.Sprintf("(forall (%s) (! (= %s %s) :pattern (%s)))", strings.Join(binders, " "), app, body, app))
		} else {
			vc.axiomAsserts = append(vc.axiomAsserts, eq(app, body))
		}
		vc.opaquePreds[p.Name] = info
	}
	var args []string
	for _, prm := range p.Params {
		args = append(args, vars[prm.Name].T)
	}
	for _, h := range info.heaps {
		args = append(args, vc.heapGet(env.st, h))
	}
	for _, g := range info.ghosts {
		args = append(args, vc.ghostGet(env.st, g))
	}
	if info.alloc {
		args = append(args, env.st.alloc)
	}
	return ghostVal(sx(info.name, args...), "Bool")
}


func (vc *VC) isTypeName(te *STypeExpr, env *Env) bool {
	if te.Field != "" {
		return false
	}
	gt, _, err := vc.w.resolveType(te, env.pkg)
	return err == nil && gt != nil
}
