package main

import (
	"fmt"
	"go/token"
	"go/types"
	"sort"
	"strings"

	"golang.org/x/tools/go/ssa"
)

// region of the heap named by an assigns clause
type region struct {
	heap  string                 // heap name; "" for ghost
	ghost string                 // ghost var name
	all   bool                   // whole heap
	in    func(loc string) string // membership predicate over a Loc term
}

func pathConst(steps []int) int {
	p := 0
	for _, k := range steps {
		p = 64*p + k + 1
	}
	return p
}

// parseAssigns turns assigns clauses into regions, evaluated in env (the pre-state).
func (vc *VC) parseAssigns(cls []*Clause, env *Env) (regs []region, everything bool) {
	if len(cls) == 0 {
		return nil, true
	}
	for _, c := range cls {
		for _, item := range splitTop(c.Text) {
			item = strings.TrimSpace(item)
			if strings.HasPrefix(item, "when ") {
				// when COND: ITEM  -- the region is empty unless COND holds (in the pre-state)
				i := strings.Index(item, ": ")
				if i < 0 {
					specFail("assigns: when COND: ITEM")
				}
				ce, err := parseSpecExpr(item[5:i])
				if err != nil {
					specFail("assigns: %v", err)
				}
				cond := vc.evalBool(ce, env)
				sub, every := vc.parseAssigns([]*Clause{{Kind: "assigns", Text: item[i+2:]}}, env)
				if every {
					return nil, true
				}
				for _, r := range sub {
					r := r
					if r.ghost != "" || r.all {
						regs = append(regs, r)
						continue
					}
					inner := r.in
					regs = append(regs, region{heap: r.heap, in: func(loc string) string { return and(cond, inner(loc)) }})
				}
				continue
			}
			switch {
			case item == "" || item == "nothing" || item == "fresh":
				continue
			case item == "everything":
				return nil, true
			case strings.HasPrefix(item, "ghost "):
				for _, g := range strings.Fields(item[6:]) {
					g = strings.Trim(g, ",")
					if vc.w.cs.GhostByNm[g] == nil {
						specFail("assigns: unknown ghost %q", g)
					}
					regs = append(regs, region{ghost: g})
				}
			case strings.HasPrefix(item, "heap[") && strings.HasSuffix(item, "]"):
				e, err := parseSpecExpr("type[" + item[5:])
				if err != nil {
					specFail("assigns: %v", err)
				}
				hte := e.(STypeOf).T
				gt, _, err := vc.w.resolveType(hte, env.pkg)
				if err != nil || gt == nil || hte.Field != "" {
					// heap[Struct.field] / heap[pkg.Struct.field]: the whole field heap
					if stT, idx, ok := vc.w.resolveFieldHeap(hte, env.pkg); ok {
						regs = append(regs, region{heap: vc.enc.FieldHeap(stT, idx), all: true})
						continue
					}
				}
				if err != nil || gt == nil {
					specFail("assigns: %v", err)
				}
				if sl, ok := gt.Underlying().(*types.Slice); ok {
					gt = sl.Elem() // heap[[]T]: the elements of slices of T
				}
				for _, lf := range vc.enc.Leaves(gt) {
					regs = append(regs, region{heap: lf.heap, all: true})
				}
			case strings.HasPrefix(item, "mapof(") && strings.HasSuffix(item, ")"):
				// mapof(m): the contents (keys, values, size) of the map m
				me, err := parseSpecExpr(item[6 : len(item)-1])
				if err != nil {
					specFail("assigns: %v", err)
				}
				mv := vc.materialize(vc.eval(me, env), env)
				if !isMapType(mv.GoT) {
					specFail("assigns: mapof() needs a map")
				}
				h := vc.mapHeap(mv.GoT)
				addr := mv.T
				for _, sfx := range []string{"_dom", "_val", "_size"} {
					regs = append(regs, region{heap: h + sfx, in: func(loc string) string { return eq(loc, addr) }})
				}
			case strings.HasPrefix(item, "new(") && strings.HasSuffix(item, ")"):
				// new(T): the function allocates objects of type T; their heaps change at fresh locations only
				te, err := parseSpecExpr("type[" + item[4:len(item)-1] + "]")
				if err != nil {
					specFail("assigns: %v", err)
				}
				gt, _, err := vc.w.resolveType(te.(STypeOf).T, env.pkg)
				if err != nil || gt == nil {
					specFail("assigns: %v", err)
				}
				for _, lf := range vc.enc.Leaves(gt) {
					regs = append(regs, region{heap: lf.heap, in: func(loc string) string { return "false" }})
				}
			case strings.HasPrefix(item, "loc(") && strings.HasSuffix(item, ")"):
				// loc(T, locExpr): the cell(s) of Go type T at a location given by a ghost expression
				parts := splitTop(item[4 : len(item)-1])
				if len(parts) != 2 {
					specFail("assigns: loc(T, expr)")
				}
				te, err := parseSpecExpr("type[" + strings.TrimSpace(parts[0]) + "]")
				if err != nil {
					specFail("assigns: %v", err)
				}
				tex := te.(STypeOf).T
				gt, _, err := vc.w.resolveType(tex, env.pkg)
				fieldHeap := ""
				if stT, idx, ok := vc.w.resolveFieldHeap(tex, env.pkg); ok && (err != nil || gt == nil || tex.Field != "") {
					fieldHeap = vc.enc.FieldHeap(stT, idx)
				} else if err != nil || gt == nil {
					specFail("assigns: %v", err)
				}
				le, err := parseSpecExpr(parts[1])
				if err != nil {
					specFail("assigns: %v", err)
				}
				lv := vc.materialize(vc.eval(le, env), env)
				if lv.Sort != "Loc" {
					specFail("assigns: loc() needs a Loc, got %s", lv.Sort)
				}
				addr := lv.T
				if fieldHeap != "" {
					regs = append(regs, region{heap: fieldHeap, in: func(loc string) string { return eq(loc, addr) }})
					continue
				}
				for _, lf := range vc.enc.Leaves(gt) {
					l := pathLoc(addr, lf.steps)
					regs = append(regs, region{heap: lf.heap, in: func(loc string) string { return eq(loc, l) }})
				}
			case strings.HasPrefix(item, "elems(") || strings.HasPrefix(item, "elemscap("):
				capMode := strings.HasPrefix(item, "elemscap(")
				inner := item[strings.Index(item, "(")+1:]
				// optional trailing .field path after the closing paren
				depth, end := 1, -1
				for i, ch := range inner {
					if ch == '(' {
						depth++
					} else if ch == ')' {
						depth--
						if depth == 0 {
							end = i
							break
						}
					}
				}
				if end < 0 {
					specFail("assigns: unbalanced %q", item)
				}
				fieldPath := strings.TrimPrefix(inner[end+1:], ".")
				e, err := parseSpecExpr(inner[:end])
				if err != nil {
					specFail("assigns: %v", err)
				}
				s := vc.materialize(vc.eval(e, env), env)
				if s.Sort != "Slice" || s.GoT == nil {
					specFail("assigns: elems() needs a typed slice, got %s", s.Sort)
				}
				et := s.GoT.Underlying().(*types.Slice).Elem()
				var preSteps []int
				lastFieldHeap := ""
				if fieldPath != "" {
					for _, fname := range strings.Split(fieldPath, ".") {
						obj, index, _ := types.LookupFieldOrMethod(et, true, env.pkgOf(et), fname)
						if _, ok := obj.(*types.Var); !ok {
							specFail("assigns: no field %s in %s", fname, et)
						}
						for _, ix := range index {
							preSteps = append(preSteps, ix)
							lastFieldHeap = vc.enc.FieldHeap(et, ix)
							et = et.Underlying().(*types.Struct).Field(ix).Type()
						}
					}
				}
				st := s.T
				bound := sx("s_len", st)
				if capMode {
					bound = sx("s_cap", st)
				}
				for _, lf := range vc.enc.Leaves(et) {
					p := pathConst(append(append([]int{}, preSteps...), lf.steps...))
					hp := lf.heap
					if _, isStruct := et.Underlying().(*types.Struct); !isStruct && lastFieldHeap != "" {
						hp = lastFieldHeap // the named field itself is the cell
					}
					regs = append(regs, region{heap: hp, in: func(loc string) string {
						return and(eq(sx("l_base", loc), sx("s_arr", st)), sx("<=", sx("s_off", st), sx("l_idx", loc)),
							sx("<", sx("l_idx", loc), sx("+", sx("s_off", st), bound)), eq(sx("l_path", loc), fmt.Sprint(p)))
					}})
				}
			default:
				e, err := parseSpecExpr(item)
				if err != nil {
					specFail("assigns: %v", err)
				}
				v := vc.eval(e, env)
				if v.Addr == "" {
					specFail("assigns: %q is not a heap location", item)
				}
				addr := v.Addr
				if v.Heap != "" {
					regs = append(regs, region{heap: v.Heap, in: func(loc string) string { return eq(loc, addr) }})
				} else {
					for _, lf := range vc.enc.Leaves(v.GoT) {
						l := pathLoc(addr, lf.steps)
						regs = append(regs, region{heap: lf.heap, in: func(loc string) string { return eq(loc, l) }})
					}
				}
			}
		}
	}
	return regs, false
}

func splitTop(s string) []string {
	var out []string
	d := 0
	last := 0
	for i, c := range s {
		switch c {
		case '(', '[':
			d++
		case ')', ']':
			d--
		case ',':
			if d == 0 {
				out = append(out, s[last:i])
				last = i + 1
			}
		}
	}
	out = append(out, s[last:])
	return out
}

// havocRegions replaces the named parts of the state by fresh values with frame axioms.
func (vc *VC) havocRegions(st *State, pc string, regs []region, everything bool, why string) {
	pre := st.clone()
	if everything {
		// unknown effects: every heap and ghost becomes unconstrained
		vc.havocAll(st)
		na := vc.freshName("alloc")
		vc.declare(na, "Int")
		vc.assume(pc, sx(">=", na, pre.alloc))
		st.alloc = na
		return
	}
	byHeap := map[string][]region{}
	var heaps []string
	for _, r := range regs {
		if r.ghost != "" {
			g := vc.w.cs.GhostByNm[r.ghost]
			n := vc.freshName("G_" + r.ghost)
			vc.declare(n, g.Sort)
			st.ghost[r.ghost] = n
			continue
		}
		if _, ok := byHeap[r.heap]; !ok {
			heaps = append(heaps, r.heap)
		}
		byHeap[r.heap] = append(byHeap[r.heap], r)
	}
	sort.Strings(heaps)
	for _, h := range heaps {
		old := vc.heapGet(pre, h)
		n := vc.freshName(h)
		vc.declare(n, fmt.Sprintf("(Array Loc %s)", vc.enc.heaps[h]))
		st.heap[h] = n
		whole := false
		var ins []string
		for _, r := range byHeap[h] {
			if r.all {
				whole = true
				break
			}
			ins = append(ins, r.in("l!f"))
		}
		if whole {
			continue
		}
		vc.assume(pc, fmt.Sprintf("(forall ((l!f Loc)) (! (=> (and (< (l_base l!f) %s) %s) (= (select %s l!f) (select %s l!f))) :pattern ((select %s l!f))))",
			pre.alloc, not(or(ins...)), n, old, n))
	}
	na := vc.freshName("alloc")
	vc.declare(na, "Int")
	vc.assume(pc, sx(">=", na, pre.alloc))
	st.alloc = na
	for _, h := range heaps {
		vc.heapAlloc[st.heap[h]] = na
	}
}

func (vc *VC) havocAll(st *State) {
	// every heap known so far gets a fresh version; heaps first mentioned later also must not
	// resolve to the entry version, so the lazily-created names are redirected through an epoch.
	for _, h := range vc.enc.heapOrder {
		n := vc.freshName(h)
		vc.declare(n, fmt.Sprintf("(Array Loc %s)", vc.enc.heaps[h]))
		st.heap[h] = n
	}
	for _, g := range vc.w.cs.Ghosts {
		n := vc.freshName("G_" + g.Name)
		vc.declare(n, g.Sort)
		st.ghost[g.Name] = n
	}
	vc.havocEverythingSeen = true
}

// ---------------------------------------------------------------------------

func calleeName(c *ssa.CallCommon) string {
	if c.IsInvoke() {
		return typeStr(c.Value.Type()) + "." + c.Method.Name()
	}
	switch f := c.Value.(type) {
	case *ssa.Function:
		return shortFuncName(f)
	case *ssa.Builtin:
		return f.Name()
	}
	return "dynamic"
}

func (vc *VC) execCall(x *ssa.Call, pc string, st *State) {
	c := x.Common()
	if b, ok := c.Value.(*ssa.Builtin); ok {
		vc.execBuiltin(x, b, pc, st)
		return
	}
	name := calleeName(c)
	if f, ok := c.Value.(*ssa.Function); ok && isInitFunc(vc.fn) && f.Name() == "init" && f.Synthetic != "" && f.Pkg != vc.fn.Pkg {
		// initializers of imported packages ran before and cannot reach this package's variables
		return
	}
	vc.callCount[name]++
	ord := vc.callOrdinal(x, name)
	var fc *FuncContract
	var formalNames []string
	var actuals []SpecVal
	var calleePkg *types.Package
	sig := c.Signature()
	switch {
	case c.IsInvoke():
		recvT := c.Value.Type()
		fc = vc.w.ifaceContract(recvT, c.Method)
		formalNames = append(formalNames, "self")
		actuals = append(actuals, vc.goVal(vc.val(c.Value), recvT))
		vc.oblige("nil", "invoke "+name, pc, not(eq(sx("i_dyn", vc.val(c.Value)), "T_nil")), nil, x.Pos(), "method call on nil interface")
		for i := 0; i < sig.Params().Len(); i++ {
			n := sig.Params().At(i).Name()
			if n == "" || n == "_" {
				n = fmt.Sprintf("a%d", i)
			}
			formalNames = append(formalNames, n)
		}
		for _, a := range c.Args {
			actuals = append(actuals, vc.goVal(vc.val(a), a.Type()))
		}
		calleePkg = pkgOfType(recvT)
	default:
		if f, ok := c.Value.(*ssa.Function); ok {
			fc = vc.w.contractFor(f)
			if f.Pkg != nil {
				calleePkg = f.Pkg.Pkg
			} else if f.Signature.Recv() != nil {
				calleePkg = pkgOfType(f.Signature.Recv().Type())
			}
			if len(f.Params) == len(c.Args) {
				for _, p := range f.Params {
					formalNames = append(formalNames, p.Name())
				}
			} else {
				if sig.Recv() != nil {
					formalNames = append(formalNames, sig.Recv().Name())
				}
				for i := 0; i < sig.Params().Len(); i++ {
					formalNames = append(formalNames, sig.Params().At(i).Name())
				}
			}
			for _, a := range c.Args {
				actuals = append(actuals, vc.goVal(vc.val(a), a.Type()))
			}
		} else {
			// call of a function value: no contract possible
			for i, a := range c.Args {
				formalNames = append(formalNames, fmt.Sprintf("a%d", i))
				actuals = append(actuals, vc.goVal(vc.val(a), a.Type()))
			}
		}
	}
	if fc != nil && len(fc.Params) > 0 {
		if len(fc.Params) != len(actuals) {
			specFail("contract %s declares %d params, call has %d", fc.Key, len(fc.Params), len(actuals))
		}
		formalNames = fc.Params
	}
	// hints before
	hints := vc.matchCallHints(name, ord)
	henv := vc.localEnv(st, x.Block(), instrIndex(x))
	for i, a := range actuals {
		henv.vars[fmt.Sprintf("arg%d", i)] = a
	}
	for _, h := range hints {
		for _, cl := range h.Before {
			vc.applyHint(cl, henv, pc)
		}
	}
	var results []string
	if fc != nil && c.IsInvoke() && len(fc.Dispatch) > 0 {
		results = vc.dispatchCall(fc, name, actuals, sig.Results(), pc, st, x)
	} else {
		results = vc.applyContract(fc, name, formalNames, actuals, sig.Results(), calleePkg, pc, st, x.Pos())
	}
	switch len(results) {
	case 0:
	case 1:
		vc.vals[x] = results[0]
	default:
		vc.tuples[x] = results
	}
	henv2 := vc.localEnv(st, x.Block(), instrIndex(x))
	for i, a := range actuals {
		henv2.vars[fmt.Sprintf("arg%d", i)] = a
	}
	for i, r := range results {
		henv2.vars[fmt.Sprintf("res%d", i)] = vc.goVal(r, sig.Results().At(i).Type())
	}
	for _, h := range hints {
		for _, cl := range h.After {
			vc.applyHint(cl, henv2, pc)
		}
	}
}

func instrIndex(in ssa.Instruction) int {
	for i, x := range in.Block().Instrs {
		if x == in {
			return i
		}
	}
	return -1
}

func (vc *VC) matchCallHints(name string, ord int) []*CallHint {
	if vc.fc == nil {
		return nil
	}
	var out []*CallHint
	for _, h := range vc.fc.Calls {
		// the callee is named by its last component(s): "Write" is io.Writer.Write, not io.WriteString
		if name != h.Callee && !strings.HasSuffix(name, "."+h.Callee) {
			continue
		}
		if h.N != 0 && h.N != ord {
			continue
		}
		out = append(out, h)
	}
	return out
}

// applyContract: assert pre, havoc frame, assume post; returns result terms.
func (vc *VC) applyContract(fc *FuncContract, name string, formals []string, actuals []SpecVal, res *types.Tuple, calleePkg *types.Package, pc string, st *State, pos token.Pos) []string {
	mkResults := func() []string {
		var out []string
		for i := 0; i < res.Len(); i++ {
			n := vc.freshName("r_" + vc.enc.mangle(name))
			vc.declare(n, vc.enc.SortOf(res.At(i).Type()))
			out = append(out, n)
		}
		return out
	}
	if fc == nil {
		// unknown callee: everything reachable may change, results unconstrained
		vc.unknownCalls = append(vc.unknownCalls, name)
		vc.havocRegions(st, pc, nil, true, name)
		out := mkResults()
		for i, r := range out {
			vc.assume(pc, vc.typeInv(st, r, res.At(i).Type()))
		}
		vc.assumeGlobalInvs(st, pc)
		return out
	}
	if fc.Trusted {
		vc.assumed[fc.Key] = true
	}
	vars := map[string]SpecVal{}
	for i, f := range formals {
		if f == "" || f == "_" {
			continue
		}
		vars[f] = actuals[i]
	}
	pre := st.clone()
	envPre := &Env{vc: vc, st: pre, old: pre, vars: vars, pkg: calleePkg}
	for _, c := range fc.Requires {
		g := vc.evalBool(c.Expr, envPre)
		lbl := name
		if c.Label != "" {
			lbl += ":" + c.Label
		}
		vc.oblige("pre", lbl, pc, g, vc.preTags(c), pos, "precondition of "+name+": "+c.Text)
	}
	if vc.fc != nil && fc.Key == vc.fc.Key && vc.fn != nil {
		// recursive call: the variant must decrease and be bounded below
		if fc.Decreases == nil {
			specFail("recursive function %s needs a decreases clause", fc.Key)
		}
		mCallee := vc.evalInt(fc.Decreases.Expr, envPre)
		mSelf := vc.evalInt(fc.Decreases.Expr, vc.baseEnv(vc.entry, vc.entry))
		vc.oblige("decreases", "recursion", pc, and(sx("<=", "0", mSelf), sx("<", mCallee, mSelf)), vc.tagsFor(fc.Decreases), pos, "recursion variant decreases and is bounded below")
	}
	regs, everything := vc.parseAssigns(fc.Assigns, envPre)
	vc.havocRegions(st, pc, regs, everything, name)
	out := mkResults()
	vars2 := map[string]SpecVal{}
	for k, v := range vars {
		vars2[k] = v
	}
	for i, r := range out {
		vc.assume(pc, vc.typeInv(st, r, res.At(i).Type()))
		sv := vc.goVal(r, res.At(i).Type())
		vars2[fmt.Sprintf("result%d", i)] = sv
		if n := res.At(i).Name(); n != "" && n != "_" {
			if _, clash := vars2[n]; !clash {
				vars2[n] = sv
			}
		}
		if len(out) == 1 {
			vars2["result"] = sv
		}
	}
	envPost := &Env{vc: vc, st: st, old: pre, vars: vars2, pkg: calleePkg}
	for _, c := range fc.Ensures {
		vc.assume(pc, vc.evalBool(c.Expr, envPost))
	}
	if fc.Pure != "" && len(out) == 1 {
		// the function is deterministic and reads nothing but the named arguments: its result is
		// the value of a spec function of them (assumed; listed among the assumptions)
		var args []SExpr
		for _, a := range fc.PureArgs {
			args = append(args, SIdent{a})
		}
		pv := vc.materialize(vc.eval(SCall{fc.Pure, args}, envPre), envPre)
		vc.assume(pc, eq(out[0], pv.T))
		vc.assumed["determinism: "+fc.Key+" computes "+fc.Pure+"("+strings.Join(fc.PureArgs, ", ")+")"] = true
	}
	vc.assumeGlobalInvs(st, pc)
	return out
}

func (vc *VC) preTags(c *Clause) []string {
	// a precondition obligation at a call site belongs to the caller's properties, plus the clause's own tags
	if len(c.Tags) == 0 {
		return vc.defTags
	}
	m := map[string]bool{}
	var out []string
	for _, t := range append(append([]string{}, vc.defTags...), c.Tags...) {
		if !m[t] {
			m[t] = true
			out = append(out, t)
		}
	}
	return out
}

// ---------------------------------------------------------------------------
// return

func (vc *VC) execReturn(x *ssa.Return, pc string, st *State) {
	if len(vc.deferred) > 0 {
		// RunDefers precedes Return in SSA; nothing to do here
	}
	if vc.fn.Synthetic != "" && vc.fn.Name() == "init" && vc.pkg != nil {
		// package initializer: establishes the package's global invariants
		for _, gi := range vc.w.cs.GlobalInvs {
			if gi.Pkg != vc.pkg.Path() {
				continue
			}
			env := &Env{vc: vc, st: st, old: st, vars: map[string]SpecVal{}, pkg: vc.pkg}
			vc.oblige("globalinv", "", pc, vc.evalBool(gi.Expr, env), gi.Tags, x.Pos(), "package init establishes: "+gi.Text)
		}
	}
	if vc.fc == nil {
		return
	}
	env := vc.localEnv(st, x.Block(), instrIndex(x))
	res := vc.fn.Signature.Results()
	for i, r := range x.Results {
		sv := vc.goVal(vc.val(r), res.At(i).Type())
		env.vars[fmt.Sprintf("result%d", i)] = sv
		if n := res.At(i).Name(); n != "" && n != "_" {
			if _, clash := env.vars[n]; !clash {
				env.vars[n] = sv
			}
		}
		if len(x.Results) == 1 {
			env.vars["result"] = sv
		}
	}
	for _, c := range vc.fc.Exit {
		vc.applyHint(c, env, pc)
	}
	for _, c := range vc.fc.Ensures {
		g := vc.evalBool(c.Expr, env)
		vc.oblige("post", c.Label, pc, g, vc.tagsFor(c), x.Pos(), "postcondition: "+c.Text)
	}
	vc.frameObligations(pc, st, x.Pos())
}

// funcFrame returns, for heap h, the formula "every location allocated at entry and outside the
// function's assigns regions has its entry value in cur", or "" when no frame applies.
func (vc *VC) funcFrame(h, cur string, withPattern bool) string {
	if vc.fc == nil || len(vc.fc.Assigns) == 0 {
		return ""
	}
	if !vc.funcRegsDone {
		vc.funcRegsDone = true
		env := vc.baseEnv(vc.entry, vc.entry)
		vc.funcRegs, vc.funcRegsAll = vc.parseAssigns(vc.fc.Assigns, env)
	}
	if vc.funcRegsAll {
		return ""
	}
	old := vc.heapGet(vc.entry, h)
	if cur == old {
		return "true"
	}
	var ins []string
	for _, r := range vc.funcRegs {
		if r.heap != h {
			continue
		}
		if r.all {
			return ""
		}
		ins = append(ins, r.in("l!f"))
	}
	body := fmt.Sprintf("(=> (and (< (l_base l!f) alloc!0) %s) (= (select %s l!f) (select %s l!f)))", not(or(ins...)), cur, old)
	if withPattern {
		return fmt.Sprintf("(forall ((l!f Loc)) (! %s :pattern ((select %s l!f))))", body, cur)
	}
	return fmt.Sprintf("(forall ((l!f Loc)) %s)", body)
}

// frameObligations: at return, everything allocated at entry and outside the assigns regions is unchanged.
func (vc *VC) frameObligations(pc string, st *State, pos token.Pos) {
	if vc.fc == nil || len(vc.fc.Assigns) == 0 {
		return
	}
	env := vc.baseEnv(vc.entry, vc.entry)
	regs, everything := vc.parseAssigns(vc.fc.Assigns, env)
	if everything {
		return
	}
	tags := vc.defTags
	for _, c := range vc.fc.Assigns {
		if len(c.Tags) > 0 {
			tags = c.Tags
		}
	}
	byHeap := map[string][]region{}
	ghostOK := map[string]bool{}
	for _, r := range regs {
		if r.ghost != "" {
			ghostOK[r.ghost] = true
			continue
		}
		byHeap[r.heap] = append(byHeap[r.heap], r)
	}
	var hs []string
	for h := range st.heap {
		hs = append(hs, h)
	}
	sort.Strings(hs)
	for _, h := range hs {
		cur := st.heap[h]
		old := vc.heapGet(vc.entry, h)
		if cur == old {
			continue
		}
		whole := false
		var ins []string
		for _, r := range byHeap[h] {
			if r.all {
				whole = true
			} else {
				ins = append(ins, r.in("l!f"))
			}
		}
		if whole {
			continue
		}
		goal := fmt.Sprintf("(forall ((l!f Loc)) (=> (and (< (l_base l!f) alloc!0) %s) (= (select %s l!f) (select %s l!f))))", not(or(ins...)), cur, old)
		vc.oblige("frame", strings.TrimPrefix(h, "H_"), pc, goal, tags, pos, "only the locations in the assigns clause may change ("+h+")")
	}
	var gs []string
	for g := range st.ghost {
		gs = append(gs, g)
	}
	sort.Strings(gs)
	for _, g := range gs {
		if ghostOK[g] {
			continue
		}
		cur := st.ghost[g]
		old := vc.ghostGet(vc.entry, g)
		if cur == old {
			continue
		}
		vc.oblige("frame", "ghost "+g, pc, eq(cur, old), tags, pos, "ghost "+g+" is not in the assigns clause")
	}
}

// ---------------------------------------------------------------------------
// hints: unfold / use / assume / ghost

func (vc *VC) applyHint(c *Clause, env *Env, pc string) {
	defer func() {
		if r := recover(); r != nil {
			if _, ok := r.(labelUnavailable); ok {
				return // the hint refers to a state that is not on this path: skip it
			}
			panic(r)
		}
	}()
	switch c.Kind {
	case "label":
		lv := map[string]SpecVal{}
		for k, v := range env.vars {
			lv[k] = v
		}
		vc.labels[strings.TrimSpace(c.Text)] = &stateLabel{st: env.st.clone(), blk: env.blk, vars: lv, local: env.local}
	case "unfold":
		if q, isQ := c.Expr.(SQuant); isQ && q.Forall {
			call, ok := q.Body.(SCall)
			if !ok {
				specFail("unfold forall needs a spec function application body: %s", c.Text)
			}
			sf := vc.w.cs.SpecFuncs[call.Fn]
			if sf == nil || sf.Body == nil || !sf.Rec {
				specFail("unfold: %s is not a recursive spec function with a body", call.Fn)
			}
			vars := map[string]SpecVal{}
			var binders []string
			for _, v := range q.Vars {
				gt, srt := vc.sortOfTypeExpr(v.T, env)
				name := fmt.Sprintf("%s!f%d", v.Name, env.depth)
				vars[v.Name] = SpecVal{T: name, Sort: srt, GoT: gt}
				binders = append(binders, fmt.Sprintf("(%s %s)", name, srt))
			}
			n := env.with(vars)
			n.depth = env.depth + 1
			body := vc.unfoldTerm(sf, call, n)
			var pats []string
			for _, trig := range q.Triggers {
				var ts []string
				for _, t := range trig {
					ts = append(ts, vc.materialize(vc.eval(t, n), n).T)
				}
				pats = append(pats, ":pattern ("+strings.Join(ts, " ")+")")
			}
			if len(pats) == 0 {
				// default trigger: the application itself
				pats = append(pats, ":pattern ("+vc.materialize(vc.eval(call, n), n).T+")")
			}
			vc.assume(pc, fmt.Sprintf("(forall (%s) (! %s %s))", strings.Join(binders, " "), body, strings.Join(pats, " ")))
			return
		}
		call, ok := c.Expr.(SCall)
		if !ok {
			specFail("unfold needs a spec function application: %s", c.Text)
		}
		sf := vc.w.cs.SpecFuncs[call.Fn]
		if sf == nil || sf.Body == nil || !sf.Rec {
			specFail("unfold: %s is not a recursive spec function with a body", call.Fn)
		}
		vc.assume(pc, vc.unfoldTerm(sf, call, env))
	case "use":
		if q, isQ := c.Expr.(SQuant); isQ && q.Forall {
			call, ok := q.Body.(SCall)
			if !ok {
				specFail("use forall needs a lemma application body: %s", c.Text)
			}
			lm := vc.w.cs.Lemmas[call.Fn]
			if lm == nil {
				specFail("use: unknown lemma %s", call.Fn)
			}
			vc.usedLemmas[lm.Name] = true
			vars := map[string]SpecVal{}
			var binders []string
			for _, v := range q.Vars {
				gt, srt := vc.sortOfTypeExpr(v.T, env)
				name := fmt.Sprintf("%s!u%d", v.Name, env.depth)
				vars[v.Name] = SpecVal{T: name, Sort: srt, GoT: gt}
				binders = append(binders, fmt.Sprintf("(%s %s)", name, srt))
			}
			n := env.with(vars)
			n.depth = env.depth + 1
			body := vc.lemmaInstance(lm, call, n)
			var pats []string
			for _, trig := range q.Triggers {
				var ts []string
				for _, t := range trig {
					ts = append(ts, vc.materialize(vc.eval(t, n), n).T)
				}
				pats = append(pats, ":pattern ("+strings.Join(ts, " ")+")")
			}
			if len(pats) == 0 {
				specFail("use forall needs an explicit trigger: %s", c.Text)
			}
			vc.assume(pc, fmt.Sprintf("(forall (%s) (! %s %s))", strings.Join(binders, " "), body, strings.Join(pats, " ")))
			return
		}
		call, ok := c.Expr.(SCall)
		if !ok {
			specFail("use needs a lemma application: %s", c.Text)
		}
		lm := vc.w.cs.Lemmas[call.Fn]
		if lm == nil {
			specFail("use: unknown lemma %s", call.Fn)
		}
		vc.usedLemmas[lm.Name] = true
		req, ens := vc.lemmaParts(lm, call, env)
		if req != "true" {
			vc.oblige("pre", "lemma "+lm.Name, pc, req, nil, 0, "precondition of lemma "+lm.Name+" at a `use` hint")
		}
		vc.assume(pc, ens)
	case "assert":
		// proved here, then available as a fact (a cut point inside a long function body)
		g := vc.evalBool(c.Expr, env)
		vc.oblige("assert", c.Label, pc, g, vc.tagsFor(c), 0, "assertion: "+c.Text)
		vc.assume(pc, g)
	case "assume":
		vc.explicitAssumes = append(vc.explicitAssumes, c.Text)
		vc.assume(pc, vc.evalBool(c.Expr, env))
	case "ghost":
		// ghost X = expr   |  ghost X[i] = expr
		i := strings.Index(c.Text, "=")
		if i < 0 {
			specFail("ghost statement needs '=': %s", c.Text)
		}
		lhs := strings.TrimSpace(c.Text[:i])
		rhs, err := parseSpecExpr(c.Text[i+1:])
		if err != nil {
			specFail("%v", err)
		}
		v := vc.materialize(vc.eval(rhs, env), env)
		if j := strings.Index(lhs, "["); j >= 0 {
			name := strings.TrimSpace(lhs[:j])
			idxE, err := parseSpecExpr(strings.TrimSuffix(lhs[j+1:], "]"))
			if err != nil {
				specFail("%v", err)
			}
			g := vc.w.cs.GhostByNm[name]
			if g == nil {
				specFail("unknown ghost %s", name)
			}
			idx := vc.materialize(vc.eval(idxE, env), env)
			env.st.ghost[name] = vc.define("G_"+name, g.Sort, sx("store", vc.ghostGet(env.st, name), idx.T, v.T))
		} else {
			g := vc.w.cs.GhostByNm[lhs]
			if g == nil {
				specFail("unknown ghost %s", lhs)
			}
			env.st.ghost[lhs] = vc.define("G_"+lhs, g.Sort, v.T)
		}
	default:
		specFail("unknown hint kind %s", c.Kind)
	}
}

func (vc *VC) unfoldTerm(sf *SpecFunc, call SCall, env *Env) string {
	fenv := &Env{vc: vc, pkg: vc.w.pkgForFile(sf.File)}
	vars := map[string]SpecVal{}
	var args []SpecVal
	for i, p := range sf.Params {
		gt, srt := vc.sortOfTypeExpr(p.T, fenv)
		a := vc.materialize(vc.eval(call.Args[i], env), env)
		if a.Sort == "Nil" {
			a = vc.nilOf(SpecVal{Sort: srt, GoT: gt})
		}
		if a.Sort != srt {
			specFail("unfold %s: arg %d sort %s want %s", sf.Name, i, a.Sort, srt)
		}
		vars[p.Name] = SpecVal{T: a.T, Sort: srt, GoT: gt}
		args = append(args, a)
	}
	lhs := vc.applySpecFunc(sf, args, env)
	n := &Env{vc: vc, st: env.st, old: env.old, vars: vars, pkg: fenv.pkg, depth: env.depth + 1}
	rhs := vc.materialize(vc.eval(sf.Body, n), n)
	return eq(lhs.T, rhs.T)
}

func (vc *VC) lemmaInstance(lm *Lemma, call SCall, env *Env) string {
	r, e := vc.lemmaParts(lm, call, env)
	return implies(r, e)
}

func (vc *VC) lemmaParts(lm *Lemma, call SCall, env *Env) (string, string) {
	fenv := &Env{vc: vc, pkg: vc.w.pkgForFile(lm.File)}
	if len(call.Args) != len(lm.Params) {
		specFail("lemma %s: want %d args", lm.Name, len(lm.Params))
	}
	vars := map[string]SpecVal{}
	for i, p := range lm.Params {
		gt, srt := vc.sortOfTypeExpr(p.T, fenv)
		a := vc.materialize(vc.eval(call.Args[i], env), env)
		if a.Sort != srt {
			specFail("lemma %s: arg %d sort %s want %s", lm.Name, i, a.Sort, srt)
		}
		vars[p.Name] = SpecVal{T: a.T, Sort: srt, GoT: gt}
	}
	n := &Env{vc: vc, st: env.st, old: env.old, vars: vars, pkg: fenv.pkg, depth: env.depth + 1}
	var reqs, enss []string
	for _, c := range lm.Requires {
		reqs = append(reqs, vc.evalBool(c.Expr, n))
	}
	for _, c := range lm.Ensures {
		enss = append(enss, vc.evalBool(c.Expr, n))
	}
	return and(reqs...), and(enss...)
}

// ---------------------------------------------------------------------------
// axioms and global invariants

func (vc *VC) assumeAxioms() {
	for _, ax := range vc.w.cs.Axioms {
		env := &Env{vc: vc, st: vc.entry, old: vc.entry, vars: map[string]SpecVal{}, pkg: vc.w.pkgForFile(ax.File)}
		if env.pkg == nil {
			env.pkg = vc.pkg
		}
		vc.axiomTerms = append(vc.axiomTerms, axiomTerm{ax, env})
	}
}

type axiomTerm struct {
	ax  *Axiom
	env *Env
}

func (vc *VC) assumeGlobalInvs(st *State, pc string) {
	for _, gi := range vc.w.cs.GlobalInvs {
		if !vc.globalInvRelevant(gi) {
			continue
		}
		env := &Env{vc: vc, st: st, old: st, vars: map[string]SpecVal{}, pkg: vc.w.tpkgs[gi.Pkg]}
		vc.assume(pc, vc.evalBool(gi.Expr, env))
	}
}

func (vc *VC) globalInvRelevant(gi *GlobalInv) bool {
	if vc.relevantGI == nil {
		vc.relevantGI = map[*GlobalInv]bool{}
		// globals referenced by the function body
		names := map[string]bool{}
		for _, b := range vc.fn.Blocks {
			for _, in := range b.Instrs {
				for _, op := range in.Operands(nil) {
					if g, ok := (*op).(*ssa.Global); ok {
						names[g.Pkg.Pkg.Path()+"."+g.Name()] = true
					}
				}
			}
		}
		text := ""
		if vc.fc != nil {
			for _, c := range append(append([]*Clause{}, vc.fc.Requires...), vc.fc.Ensures...) {
				text += " " + c.Text
			}
			for _, l := range vc.fc.Loops {
				for _, c := range l.Invariants {
					text += " " + c.Text
				}
			}
		}
		for _, g := range vc.w.cs.GlobalInvs {
			rel := false
			for _, id := range identsOf(g.Expr) {
				if names[g.Pkg+"."+id] {
					rel = true
				}
				if vc.w.tpkgs[g.Pkg] != nil && vc.w.tpkgs[g.Pkg].Scope().Lookup(id) != nil && strings.Contains(text, id) {
					rel = true
				}
			}
			if isInitFunc(vc.fn) {
				rel = false // init establishes them
			}
			vc.relevantGI[g] = rel
		}
	}
	return vc.relevantGI[gi]
}

func identsOf(e SExpr) []string {
	var out []string
	var walk func(SExpr)
	walk = func(x SExpr) {
		switch v := x.(type) {
		case SIdent:
			out = append(out, v.Name)
		case SUn:
			walk(v.X)
		case SBin:
			walk(v.X)
			walk(v.Y)
		case SField:
			walk(v.X)
			out = append(out, v.Name)
		case SIndex:
			walk(v.X)
			walk(v.I)
		case SSlice:
			walk(v.X)
		case SCall:
			out = append(out, v.Fn)
			for _, a := range v.Args {
				walk(a)
			}
		case SOld:
			walk(v.X)
		case SAssert:
			walk(v.X)
		case SQuant:
			walk(v.Body)
			for _, tr := range v.Triggers {
				for _, t := range tr {
					walk(t)
				}
			}
		case SIte:
			walk(v.C)
			walk(v.A)
			walk(v.B)
		case SAddr:
			walk(v.X)
		}
	}
	walk(e)
	return out
}


// dispatchCall: invoke on a library interface whose contract lists its implementers: case split
// on the dynamic type, each case uses the implementer's own contract; the cases are merged like
// control-flow edges. The dynamic type must be one of the listed implementers.
func (vc *VC) dispatchCall(ifc *FuncContract, name string, actuals []SpecVal, res *types.Tuple, pc string, st *State, x *ssa.Call) []string {
	recv := actuals[0]
	var es []*edge
	var outs [][]string
	var conds []string
	for _, d := range ifc.Dispatch {
		key := ifc.Pkg + "::" + d
		if strings.Contains(d, "::") {
			key = d // implementer in another package: full key
		}
		fn := vc.w.fnByKey[key]
		if fn == nil {
			specFail("dispatch: no function %s", key)
		}
		fc := vc.w.contractFor(fn)
		recvT := fn.Signature.Recv().Type()
		tc := vc.enc.TypeConst(recvT)
		cond := eq(sx("i_dyn", recv.T), tc)
		conds = append(conds, cond)
		pck := vc.define("disp", "Bool", and(pc, cond))
		stk := st.clone()
		var formals []string
		for _, p := range fn.Params {
			formals = append(formals, p.Name())
		}
		if fc != nil && len(fc.Params) == len(fn.Params) {
			formals = fc.Params
		}
		acts := append([]SpecVal{vc.goVal(vc.enc.Unbox(vc.enc.SortOf(recvT), sx("i_val", recv.T)), recvT)}, actuals[1:]...)
		vc.assume(pck, vc.typeInv(stk, acts[0].T, recvT))
		// well-formed interface value: the payload of dynamic type T is a boxed value of T's sort
		vc.assume(pck, eq(sx("i_val", recv.T), vc.enc.Box(vc.enc.SortOf(recvT), acts[0].T)))
		var pkg *types.Package
		if fn.Pkg != nil {
			pkg = fn.Pkg.Pkg
		} else {
			pkg = pkgOfType(recvT)
		}
		r := vc.applyContract(fc, shortFuncName(fn), formals, acts, res, pkg, pck, stk, x.Pos())
		es = append(es, &edge{pck, stk})
		outs = append(outs, r)
	}
	if len(conds) == 2 {
		vc.splitLits = append(vc.splitLits, conds[0])
	}
	vc.oblige("dispatch", name, pc, or(conds...), nil, x.Pos(), "dynamic type of the receiver is one of the library implementers of "+name)
	_, merged := vc.mergeNamed(vc.freshName("pc_disp"), es)
	*st = *merged
	var results []string
	for i := 0; i < res.Len(); i++ {
		t := outs[len(outs)-1][i]
		for k := len(outs) - 2; k >= 0; k-- {
			t = ite(es[k].pc, outs[k][i], t)
		}
		results = append(results, vc.define("r_disp", vc.enc.SortOf(res.At(i).Type()), t))
	}
	return results
}


// callOrdinal: the 1-based ordinal of a call among the calls to the same callee, in source order
// (independent of the order in which blocks are traversed).
func (vc *VC) callOrdinal(x *ssa.Call, name string) int {
	if vc.callOrds == nil {
		vc.callOrds = map[ssa.Instruction]int{}
		byName := map[string][]*ssa.Call{}
		for _, b := range vc.fn.Blocks {
			for _, in := range b.Instrs {
				if c, ok := in.(*ssa.Call); ok {
					if _, isB := c.Common().Value.(*ssa.Builtin); isB {
						continue
					}
					n := calleeName(c.Common())
					byName[n] = append(byName[n], c)
				}
			}
		}
		for _, cs := range byName {
			sort.SliceStable(cs, func(i, j int) bool { return cs[i].Pos() < cs[j].Pos() })
			for i, c := range cs {
				vc.callOrds[c] = i + 1
			}
		}
	}
	return vc.callOrds[x]
}
