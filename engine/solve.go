package main

import (
	"bytes"
	"context"
	"fmt"
	"os"
	"os/exec"
	"path/filepath"
	"strings"
	"sync"
	"sync/atomic"
	"time"
)

type SolveResult struct {
	Name     string  `json:"name"`
	Kind     string  `json:"kind"`
	Tags     []string `json:"tags,omitempty"`
	Result   string  `json:"result"` // unsat (discharged) | sat | unknown | timeout | vacuous | ok-canary
	Backend  string  `json:"backend"`
	Secs     float64 `json:"solver_s"`
	Agree    []string `json:"agreeing_backends,omitempty"`
	Info     string  `json:"info,omitempty"`
	Pos      string  `json:"pos,omitempty"`
	Output   string  `json:"-"`
	SMTBytes int     `json:"smt_bytes"`
	obl      *Obligation
}

type solverSpec struct {
	name string
	args func(file string, timeoutS int) []string
}

// the older z3 4.8.12 takes part in the thorough tier (independent second opinion)
var oldZ3 = solverSpec{"z3-4.8.12", func(f string, t int) []string { return []string{"z3", fmt.Sprintf("-T:%d", t), f} }}

var solvers = []solverSpec{
	{"z3-new", func(f string, t int) []string {
		return []string{"z3-new", "smt.array.extensional=false", fmt.Sprintf("-T:%d", t), f}
	}},
	{"z3-new-norelevancy", func(f string, t int) []string {
		return []string{"z3-new", "smt.mbqi=false", "smt.auto_config=false", "smt.array.extensional=false", "smt.relevancy=0", fmt.Sprintf("-T:%d", t), f}
	}},
	{"z3-new-ematch", func(f string, t int) []string {
		return []string{"z3-new", "smt.mbqi=false", "smt.auto_config=false", "smt.array.extensional=false", fmt.Sprintf("-T:%d", t), f}
	}},
	{"cvc5", func(f string, t int) []string {
		return []string{"cvc5", fmt.Sprintf("--tlimit=%d", t*1000), f}
	}},
}

func runOne(ctx context.Context, s solverSpec, file string, timeoutS int) (string, string, float64) {
	a := s.args(file, timeoutS)
	cctx, cancel := context.WithTimeout(ctx, time.Duration(timeoutS+2)*time.Second)
	defer cancel()
	cmd := exec.CommandContext(cctx, a[0], a[1:]...)
	var out bytes.Buffer
	cmd.Stdout = &out
	cmd.Stderr = &out
	t0 := time.Now()
	_ = cmd.Run()
	el := time.Since(t0).Seconds()
	o := out.String()
	first := strings.TrimSpace(strings.SplitN(o, "\n", 2)[0])
	switch first {
	case "unsat", "sat", "unknown":
		return first, o, el
	case "timeout":
		return "timeout", o, el
	}
	if cctx.Err() != nil {
		return "timeout", o, el
	}
	if strings.Contains(o, "timeout") || strings.Contains(o, "interrupted") {
		return "timeout", o, el
	}
	return "error", o, el
}

// solveObligation races the solvers. needAgree: number of backends that must say unsat (thorough tier: 2).
func solveObligation(o *Obligation, dir string, timeoutS int, needAgree int, which []solverSpec) *SolveResult {
	if len(o.Splits) > 0 && !o.Canary && o.Extra == "" {
		// first the whole goal with a third of the budget, then the case split
		t1 := timeoutS / 3
		if t1 < 2 {
			t1 = 2
		}
		r := solveObligation1(o, dir, t1, needAgree, which, "")
		if r.Result == "unsat" || r.Result == "sat" {
			return r
		}
		n := len(o.Splits)
		total := r.Secs
		for mask := 0; mask < 1<<n; mask++ {
			var extra strings.Builder
			for i, l := range o.Splits {
				if mask&(1<<i) != 0 {
					fmt.Fprintf(&extra, "(assert %s)\n", l)
				} else {
					fmt.Fprintf(&extra, "(assert (not %s))\n", l)
				}
			}
			c := *o
			c.Extra = extra.String()
			rc := solveObligation1(&c, dir, timeoutS, needAgree, which, fmt.Sprintf(".case%d", mask))
			total += rc.Secs
			if rc.Result != "unsat" {
				rc.Name = o.Name
				rc.Info = o.Info + fmt.Sprintf(" | undecided in split case %d of %d", mask, 1<<n)
				rc.obl = o
				rc.Secs = total
				return rc
			}
			r.Backend = rc.Backend + "+split"
			r.Agree = rc.Agree
		}
		r.Result = "unsat"
		r.Secs = total
		return r
	}
	return solveObligation1(o, dir, timeoutS, needAgree, which, "")
}

// solveObligation1 stages the attempts: relevance-sliced hypotheses with a short budget (the common case:
// small scripts, answers in well under a second), then every hypothesis with the same short budget (the
// slicer only drops assumptions: sound, not complete -- when it dropped a needed one the full script is
// usually decided at once), then the sliced script again with the whole budget.
func solveObligation1(o *Obligation, dir string, timeoutS int, needAgree int, which []solverSpec, suffix string) *SolveResult {
	decided := func(r *SolveResult) bool {
		return r.Result == "unsat" || r.Result == "sat" || r.Result == "disagree"
	}
	short := timeoutS / 8
	if short < 3 {
		short = 3
	}
	if o.Canary || o.Unsliced || short >= timeoutS {
		return solveObligation2(o, dir, timeoutS, needAgree, which, suffix)
	}
	r := solveObligation2(o, dir, short, needAgree, which, suffix)
	if decided(r) {
		return r
	}
	total := r.Secs
	c := *o
	c.Unsliced = true
	r2 := solveObligation2(&c, dir, short, needAgree, which, suffix+".full")
	r2.obl = o
	total += r2.Secs
	if r2.Result == "unsat" {
		r2.Backend += "+unsliced"
		r2.Secs = total
		return r2
	}
	r3 := solveObligation2(o, dir, timeoutS, needAgree, which, suffix)
	r3.Secs += total
	if !decided(r3) {
		r3.Output += "\n-- with all hypotheses --\n" + r2.Output
	}
	return r3
}

func solveObligation2(o *Obligation, dir string, timeoutS int, needAgree int, which []solverSpec, suffix string) *SolveResult {
	script := o.Script(false)
	fn := filepath.Join(dir, sanitize(o.Name)+suffix+".smt2")
	os.WriteFile(fn, []byte(script), 0o644)
	res := &SolveResult{Name: o.Name, Kind: o.Kind, Tags: o.Tags, Info: o.Info, SMTBytes: len(script), obl: o}
	if o.Pos.IsValid() {
		res.Pos = fmt.Sprintf("%s:%d", o.Pos.Filename, o.Pos.Line)
	}
	ctx, cancel := context.WithCancel(context.Background())
	defer cancel()
	type ans struct {
		solver, r, out string
		secs         float64
	}
	ch := make(chan ans, len(which))
	for _, s := range which {
		go func(s solverSpec) {
			r, out, secs := runOne(ctx, s, fn, timeoutS)
			ch <- ans{s.name, r, out, secs}
		}(s)
	}
	var outputs []string
	got := 0
	unsatBy := []string{}
	final := "unknown"
	var grace <-chan time.Time
loop:
	for got < len(which) {
		var a ans
		select {
		case a = <-ch:
		case <-grace:
			// a second opinion did not arrive within the grace period after the first unsat
			break loop
		}
		got++
		outputs = append(outputs, fmt.Sprintf("[%s %.2fs] %s", a.solver, a.secs, strings.TrimSpace(firstLines(a.out, 3))))
		if a.r == "unsat" {
			unsatBy = append(unsatBy, a.solver)
			if len(unsatBy) == 1 {
				res.Backend, res.Secs = a.solver, a.secs
				if needAgree > 1 {
					g := time.Duration(3*a.secs+5) * time.Second
					if g > 20*time.Second {
						g = 20 * time.Second
					}
					grace = time.After(g)
				}
			}
			if len(unsatBy) >= needAgree {
				final = "unsat"
				break
			}
		} else if a.r == "sat" {
			if len(unsatBy) == 0 {
				final = "sat"
				res.Backend, res.Secs = a.solver, a.secs
				break
			}
			// disagreement between solvers: treat as not discharged
			final = "disagree"
			break
		} else if a.r == "timeout" && final == "unknown" {
			final = "timeout"
			if res.Secs < a.secs {
				res.Secs = a.secs
			}
		} else if a.r == "error" {
			res.Info += " | solver error from " + a.solver + ": " + firstLines(a.out, 2)
		}
	}
	cancel()
	if final != "unsat" && len(unsatBy) > 0 && final != "disagree" && needAgree > 1 {
		// fewer agreeing backends than required but no contradiction: accept with a note
		final = "unsat"
		res.Info += fmt.Sprintf(" | only %d backend(s) decided within the budget", len(unsatBy))
	}
	res.Agree = unsatBy
	res.Result = final
	res.Output = strings.Join(outputs, "\n")
	if o.Canary {
		if final == "unsat" {
			res.Result = "vacuous"
		} else {
			res.Result = "ok-canary"
		}
	}
	return res
}

func firstLines(s string, n int) string {
	ls := strings.Split(s, "\n")
	if len(ls) > n {
		ls = ls[:n]
	}
	return strings.Join(ls, " / ")
}

func sanitize(s string) string {
	var b strings.Builder
	for _, c := range s {
		switch {
		case c >= 'a' && c <= 'z', c >= 'A' && c <= 'Z', c >= '0' && c <= '9', c == '.', c == '-', c == '_':
			b.WriteRune(c)
		default:
			b.WriteRune('_')
		}
	}
	r := b.String()
	if len(r) > 180 {
		r = r[:180]
	}
	return r
}

// maxFailures: once this many obligations have failed the remaining ones are skipped (the check has its answer;
// on a badly broken tree every further failure would cost the full solver budget). 0 = no limit.
var maxFailures = 0

func solveAll(obls []*Obligation, dir string, timeoutS, canaryTimeoutS, needAgree, par int) []*SolveResult {
	out := make([]*SolveResult, len(obls))
	sem := make(chan struct{}, par)
	var wg sync.WaitGroup
	var nfail int32
	for i, o := range obls {
		wg.Add(1)
		go func(i int, o *Obligation) {
			defer wg.Done()
			sem <- struct{}{}
			defer func() { <-sem }()
			if maxFailures > 0 && int(atomic.LoadInt32(&nfail)) >= maxFailures {
				out[i] = &SolveResult{Name: o.Name, Kind: o.Kind, Tags: o.Tags, Result: "skipped", obl: o}
				return
			}
			defer func() {
				if r := out[i]; r != nil && r.Result != "unsat" && r.Result != "ok-canary" {
					atomic.AddInt32(&nfail, 1)
				}
			}()
			if o.Canary {
				out[i] = solveObligation(o, dir, canaryTimeoutS, 1, solvers[:2])
			} else if o.Goal == "true" {
				out[i] = &SolveResult{Name: o.Name, Kind: o.Kind, Tags: o.Tags, Result: "unsat", Backend: "trivial", obl: o}
			} else {
				out[i] = solveObligation(o, dir, timeoutS, needAgree, solvers)
			}
		}(i, o)
	}
	wg.Wait()
	return out
}
