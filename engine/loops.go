package main

import (
	"fmt"
	"go/token"
	"go/types"
	"sort"
	"strconv"
	"strings"

	"golang.org/x/tools/go/ssa"
)

// localEnv resolves source-level local variable names at (block, idx).
func (vc *VC) localEnv(st *State, b *ssa.BasicBlock, idx int) *Env {
	env := vc.baseEnv(st, vc.entry)
	env.local = func(name string) (SpecVal, bool) { return vc.lookupLocal(name, b, idx, st, nil) }
	env.blk = b
	return env
}

func (vc *VC) lookupLocal(name string, b *ssa.BasicBlock, idx int, st *State, phiOverride map[*ssa.Phi]string) (SpecVal, bool) {
	// 1. phi of a dominating block (or this block) named after the variable: pick the deepest
	type cand struct {
		v      ssa.Value
		block  *ssa.BasicBlock
		idx    int
		isAddr bool
	}
	// rangeslice / rangesliceN: the slice a range loop iterates over (it may have no source name)
	if strings.HasPrefix(name, "rangeslice") {
		var head *ssa.BasicBlock
		if rest := name[len("rangeslice"):]; rest != "" {
			if n, err := strconv.Atoi(rest); err == nil {
				for _, li := range vc.loopHead {
					if li.ord == n {
						head = li.head
					}
				}
			}
		} else {
			// innermost loop head dominating (or equal to) b
			for _, li := range vc.loopHead {
				if (li.head == b || li.head.Dominates(b)) && (head == nil || head.Dominates(li.head)) {
					head = li.head
				}
			}
		}
		if head != nil {
			for _, in := range head.Instrs {
				if bo, ok := in.(*ssa.BinOp); ok && bo.Op == token.LSS {
					if call, ok := bo.Y.(*ssa.Call); ok {
						if bi, ok := call.Call.Value.(*ssa.Builtin); ok && bi.Name() == "len" {
							if _, defined := vc.vals[call.Call.Args[0]]; defined {
								return vc.goVal(vc.val(call.Call.Args[0]), call.Call.Args[0].Type()), true
							}
						}
					}
				}
			}
		}
		return SpecVal{}, false
	}
	var best *cand
	// rangeindexN: the index of range loop#N (for invariants of loops nested inside it)
	onlyHead := (*ssa.BasicBlock)(nil)
	if strings.HasPrefix(name, "rangeindex") && len(name) > len("rangeindex") {
		if n, err := strconv.Atoi(name[len("rangeindex"):]); err == nil {
			for _, li := range vc.loopHead {
				if li.ord == n {
					onlyHead = li.head
				}
			}
			if onlyHead == nil {
				return SpecVal{}, false
			}
			name = "rangeindex"
		}
	}
	better := func(c *cand) bool {
		if best == nil {
			return true
		}
		if c.block == best.block {
			return c.idx > best.idx
		}
		// deeper dominator wins
		return best.block.Dominates(c.block)
	}
	for _, blk := range vc.fn.Blocks {
		if !(blk == b || blk.Dominates(b)) {
			continue
		}
		if onlyHead != nil && blk != onlyHead {
			continue
		}
		for i, in := range blk.Instrs {
			phi, ok := in.(*ssa.Phi)
			if !ok {
				break
			}
			if phi.Comment == name {
				if blk == b && i >= idx && idx >= 0 {
					continue
				}
				c := &cand{phi, blk, -1, false}
				if better(c) {
					best = c
				}
			}
		}
	}
	for _, d := range vc.debugVars[name] {
		if d.block == b {
			if idx >= 0 && d.idx >= idx {
				continue
			}
		} else if !d.block.Dominates(b) {
			continue
		}
		c := &cand{d.v, d.block, d.idx, d.isAddr}
		if better(c) {
			best = c
		}
	}
	if best == nil {
		return SpecVal{}, false
	}
	if phi, ok := best.v.(*ssa.Phi); ok && phiOverride != nil {
		if t, ok := phiOverride[phi]; ok {
			return vc.goVal(t, phi.Type()), true
		}
	}
	if _, defined := vc.vals[best.v]; !defined {
		switch best.v.(type) {
		case *ssa.Const, *ssa.Global, *ssa.Function:
		default:
			return SpecVal{}, false
		}
	}
	t := vc.val(best.v)
	if best.isAddr {
		et := best.v.Type().Underlying().(*types.Pointer).Elem()
		return vc.loadSpec(st, t, et), true
	}
	return vc.goVal(t, best.v.Type()), true
}

// modified collects heaps/ghosts possibly written inside a loop body.
func (vc *VC) loopModifies(li *loopInfo) (heaps map[string]bool, ghosts map[string]bool, all bool, allocs bool) {
	heaps, ghosts = map[string]bool{}, map[string]bool{}
	addType := func(t types.Type) {
		for _, lf := range vc.enc.Leaves(t) {
			heaps[lf.heap] = true
		}
	}
	var idxs []int
	for bi := range li.body {
		idxs = append(idxs, bi)
	}
	sort.Ints(idxs)
	for _, bi := range idxs {
		for _, in := range vc.fn.Blocks[bi].Instrs {
			switch x := in.(type) {
			case *ssa.Store:
				et := x.Addr.Type().Underlying().(*types.Pointer).Elem()
				if _, isStruct := et.Underlying().(*types.Struct); isStruct {
					addType(et)
				} else {
					for _, a := range vc.ptrHeaps(x.Addr, et) {
						heaps[a.heap] = true
					}
				}
			case *ssa.Alloc, *ssa.MakeSlice, *ssa.MakeMap, *ssa.MakeClosure:
				allocs = true
			case *ssa.Convert:
				allocs = true
			case *ssa.MapUpdate:
				mh := vc.mapHeap(x.Map.Type())
				heaps[mh+"_dom"], heaps[mh+"_val"], heaps[mh+"_size"] = true, true, true
			case *ssa.Next:
				if !x.IsString {
					// the map iterator advances: its ghost visited-set and count change
					if mr := vc.mapRanges[x.Iter]; mr != nil {
						ks, _ := vc.mapSorts(mr.m.Type())
						vc.ensureIterGhosts(ks)
					}
					ghosts["it_visited"], ghosts["it_count"] = true, true
				}
			case *ssa.Call:
				allocs = true
				c := x.Common()
				if b, ok := c.Value.(*ssa.Builtin); ok {
					switch b.Name() {
					case "append", "copy":
						addType(c.Args[0].Type().Underlying().(*types.Slice).Elem())
					}
					continue
				}
				var fc *FuncContract
				if c.IsInvoke() {
					fc = vc.w.ifaceContract(c.Value.Type(), c.Method)
				} else if f, ok := c.Value.(*ssa.Function); ok {
					fc = vc.w.contractFor(f)
				}
				var fcs []*FuncContract
				if fc != nil && len(fc.Dispatch) > 0 {
					for _, d := range fc.Dispatch {
						key := fc.Pkg + "::" + d
						if strings.Contains(d, "::") {
							key = d
						}
						if f := vc.w.fnByKey[key]; f != nil {
							fcs = append(fcs, vc.w.contractFor(f))
						} else {
							fcs = append(fcs, nil)
						}
					}
				} else {
					fcs = []*FuncContract{fc}
				}
				for _, fc := range fcs {
					if fc == nil || len(fc.Assigns) == 0 {
						all = true
						continue
					}
					hs, gs, every := vc.assignsHeaps(fc)
					if every {
						all = true
					}
					for h := range hs {
						heaps[h] = true
					}
					for g := range gs {
						ghosts[g] = true
					}
				}
			}
		}
	}
	// ghost statements bound (by call hints) to the calls that occur in the body
	if vc.fc != nil {
		for _, bi := range idxs {
			for _, in := range vc.fn.Blocks[bi].Instrs {
				x, ok := in.(*ssa.Call)
				if !ok {
					continue
				}
				if _, isB := x.Common().Value.(*ssa.Builtin); isB {
					continue
				}
				name := calleeName(x.Common())
				for _, h := range vc.matchCallHints(name, vc.callOrdinal(x, name)) {
					for _, c := range append(append([]*Clause{}, h.Before...), h.After...) {
						if c.Kind == "ghost" {
							gname := c.Text
							for i, ch := range gname {
								if ch == '=' || ch == '[' || ch == ' ' {
									gname = gname[:i]
									break
								}
							}
							ghosts[gname] = true
						}
					}
				}
			}
		}
	}
	return
}

// assignsHeaps: a syntactic over-approximation of the heaps a contract's assigns clause can touch.
func (vc *VC) assignsHeaps(fc *FuncContract) (map[string]bool, map[string]bool, bool) {
	key := fc.Key
	if r, ok := vc.assignsCache[key]; ok {
		return r.h, r.g, r.all
	}
	hs, gs := map[string]bool{}, map[string]bool{}
	all := false
	// evaluate the assigns clause with dummy actuals of the right types
	fn := vc.w.fnByKey[fc.Key]
	vars := map[string]SpecVal{}
	var pkg *types.Package
	bind := func(name string, t types.Type) {
		n := vc.freshName("dummy")
		vc.declare(n, vc.enc.SortOf(t))
		vars[name] = vc.goVal(n, t)
	}
	if fn != nil {
		for i, p := range fn.Params {
			nm := p.Name()
			if len(fc.Params) == len(fn.Params) {
				nm = fc.Params[i]
			}
			bind(nm, p.Type())
		}
		if fn.Pkg != nil {
			pkg = fn.Pkg.Pkg
		} else if fn.Signature.Recv() != nil {
			pkg = pkgOfType(fn.Signature.Recv().Type())
		}
	} else {
		// iface or external without SSA body: resolve what we can from params of the first matching signature
		if sig, recvT := vc.w.signatureFor(fc); sig != nil {
			names := fc.Params
			k := 0
			if recvT != nil {
				nm := "self"
				if len(names) > 0 {
					nm = names[0]
				}
				bind(nm, recvT)
				k = 1
			}
			for i := 0; i < sig.Params().Len(); i++ {
				nm := sig.Params().At(i).Name()
				if len(names) > i+k {
					nm = names[i+k]
				}
				if nm == "" {
					nm = fmt.Sprintf("a%d", i)
				}
				bind(nm, sig.Params().At(i).Type())
			}
			pkg = vc.w.tpkgs[fc.Pkg]
		} else {
			all = true
		}
	}
	if !all {
		st := vc.entry.clone()
		env := &Env{vc: vc, st: st, old: st, vars: vars, pkg: pkg}
		regs, every := vc.parseAssigns(fc.Assigns, env)
		all = every
		for _, r := range regs {
			if r.ghost != "" {
				gs[r.ghost] = true
			} else {
				hs[r.heap] = true
			}
		}
	}
	if vc.assignsCache == nil {
		vc.assignsCache = map[string]assignsInfo{}
	}
	vc.assignsCache[key] = assignsInfo{hs, gs, all}
	return hs, gs, all
}

type assignsInfo struct {
	h, g map[string]bool
	all  bool
}

func (vc *VC) enterLoop(li *loopInfo, b *ssa.BasicBlock, es []*edge, pc string, st *State) (string, *State) {
	lc := li.lc
	if lc == nil {
		panic(unsupported(fmt.Sprintf("loop#%d has no invariant", li.ord)))
	}
	// 1. entry values of phis
	entryPhi := map[*ssa.Phi]string{}
	var phis []*ssa.Phi
	for _, in := range b.Instrs {
		phi, ok := in.(*ssa.Phi)
		if !ok {
			break
		}
		phis = append(phis, phi)
		entryPhi[phi] = vc.define("phi0_"+phi.Name(), vc.enc.SortOf(phi.Type()), vc.phiTerm(phi, b, true))
	}
	li.preSt = st.clone()
	li.prePC = pc
	// 2. invariant on entry
	envEntry := vc.baseEnv(st, vc.entry)
	envEntry.local = func(name string) (SpecVal, bool) { return vc.lookupLocal(name, b, len(phis), st, entryPhi) }
	// label loopN: the state at the loop head (on entry: the pre-loop state); unfold/use hints also serve the entry check
	vc.labels[fmt.Sprintf("loop%d", li.ord)] = &stateLabel{st: st.clone()}
	for _, c := range lc.Hints {
		if c.Kind == "unfold" || c.Kind == "use" {
			vc.applyHint(c, envEntry, pc)
		}
	}
	for _, c := range lc.Invariants {
		g := vc.evalBool(c.Expr, envEntry)
		vc.oblige("inv-entry", fmt.Sprintf("loop#%d", li.ord)+labelSuffix(c), pc, g, vc.tagsFor(c), b.Instrs[0].Pos(), "invariant holds on loop entry: "+c.Text)
	}
	// 3. havoc
	heaps, ghosts, all, allocs := vc.loopModifies(li)
	hst := st.clone()
	if all {
		vc.havocAll(hst)
		allocs = true
	} else {
		var hs []string
		for h := range heaps {
			hs = append(hs, h)
		}
		sort.Strings(hs)
		// loop-level assigns clause gives a frame for the havoc'd heaps
		var regs []region
		haveRegs := false
		if len(lc.Assigns) > 0 {
			r, every := vc.parseAssigns(lc.Assigns, envEntry)
			if !every {
				regs, haveRegs = r, true
			}
		}
		for _, h := range hs {
			old := vc.heapGet(st, h)
			n := vc.freshName(h)
			vc.declare(n, fmt.Sprintf("(Array Loc %s)", vc.enc.heaps[h]))
			hst.heap[h] = n
			if haveRegs {
				var ins []string
				whole := false
				for _, r := range regs {
					if r.heap != h {
						continue
					}
					if r.all {
						whole = true
					} else {
						ins = append(ins, r.in("l!f"))
					}
				}
				if !whole {
					vc.assume(pc, fmt.Sprintf("(forall ((l!f Loc)) (! (=> (and (< (l_base l!f) %s) %s) (= (select %s l!f) (select %s l!f))) :pattern ((select %s l!f))))",
						st.alloc, not(or(ins...)), n, old, n))
				}
			}
		}
		var gs []string
		for g := range ghosts {
			gs = append(gs, g)
		}
		sort.Strings(gs)
		for _, g := range gs {
			gv := vc.w.cs.GhostByNm[g]
			if gv == nil {
				continue
			}
			n := vc.freshName("G_" + g)
			vc.declare(n, gv.Sort)
			hst.ghost[g] = n
		}
	}
	li.frameHeaps = nil
	if !all {
		var hs []string
		for h := range heaps {
			hs = append(hs, h)
		}
		sort.Strings(hs)
		for _, h := range hs {
			if f := vc.funcFrame(h, vc.heapGet(st, h), false); f != "" {
				li.frameHeaps = append(li.frameHeaps, h)
				vc.oblige("inv-entry", fmt.Sprintf("loop#%d:frame:%s", li.ord, h), pc, f, nil, b.Instrs[0].Pos(), "function frame holds on loop entry")
				if f2 := vc.funcFrame(h, hst.heap[h], true); f2 != "" {
					vc.assume(pc, f2)
				}
			}
		}
	}
	if allocs {
		na := vc.freshName("alloc")
		vc.declare(na, "Int")
		vc.assume(pc, sx(">=", na, st.alloc))
		hst.alloc = na
	}
	for h := range heaps {
		if hv, ok := hst.heap[h]; ok && hv != st.heap[h] {
			vc.heapAlloc[hv] = hst.alloc
		}
	}
	for _, phi := range phis {
		vc.havocVal(phi, hst, pc)
	}
	li.havocSt = hst
	vc.labels[fmt.Sprintf("loop%d", li.ord)] = &stateLabel{st: hst.clone()}
	// 4. assume invariant
	envH := vc.baseEnv(hst, vc.entry)
	envH.local = func(name string) (SpecVal, bool) { return vc.lookupLocal(name, b, len(phis), hst, nil) }
	for _, c := range lc.Invariants {
		vc.assume(pc, vc.evalBool(c.Expr, envH))
	}
	vc.assumeGlobalInvs(hst, pc)
	for _, c := range lc.Hints {
		vc.applyHint(c, envH, pc)
	}
	cn := vc.oblige("canary", fmt.Sprintf("loop#%d", li.ord), pc, "false", nil, b.Instrs[0].Pos(), "loop invariant must be satisfiable")
	cn.Canary = true
	if lc.Decreases != nil {
		li.decrTerm = vc.define("decr", "Int", vc.evalInt(lc.Decreases.Expr, envH))
	}
	return pc, hst
}

func labelSuffix(c *Clause) string {
	if c.Label != "" {
		return ":" + c.Label
	}
	return ""
}

func (vc *VC) closeLoop(li *loopInfo, from *ssa.BasicBlock, pc string, st *State) {
	b := li.head
	lc := li.lc
	back := map[*ssa.Phi]string{}
	nphi := 0
	for _, in := range b.Instrs {
		phi, ok := in.(*ssa.Phi)
		if !ok {
			break
		}
		nphi++
		for i, p := range b.Preds {
			if p == from {
				back[phi] = vc.val(phi.Edges[i])
			}
		}
	}
	env := vc.baseEnv(st, vc.entry)
	env.local = func(name string) (SpecVal, bool) { return vc.lookupLocal(name, b, nphi, st, back) }
	for _, c := range lc.Hints {
		vc.applyHint(c, env, pc)
	}
	for _, c := range lc.Invariants {
		g := vc.evalBool(c.Expr, env)
		vc.oblige("inv-preserved", fmt.Sprintf("loop#%d", li.ord)+labelSuffix(c), pc, g, vc.tagsFor(c), from.Instrs[len(from.Instrs)-1].Pos(), "invariant preserved by the loop body: "+c.Text)
	}
	for _, h := range li.frameHeaps {
		if f := vc.funcFrame(h, vc.heapGet(st, h), false); f != "" {
			vc.oblige("inv-preserved", fmt.Sprintf("loop#%d:frame:%s", li.ord, h), pc, f, nil, from.Instrs[len(from.Instrs)-1].Pos(), "function frame preserved by the loop body")
		}
	}
	if lc.Decreases != nil {
		nv := vc.evalInt(lc.Decreases.Expr, env)
		vc.oblige("decreases", fmt.Sprintf("loop#%d", li.ord), pc, and(sx("<=", "0", li.decrTerm), sx("<", nv, li.decrTerm)), vc.tagsFor(lc.Decreases), from.Instrs[len(from.Instrs)-1].Pos(), "loop variant decreases and is bounded below")
	}
}
