package main

import (
	"encoding/json"
	"flag"
	"fmt"
	"os"
	"os/exec"
	"path/filepath"
	"regexp"
	"runtime"
	"sort"
	"strconv"
	"strings"
	"time"
)

type KnownFinding struct {
	Property   string `json:"property"`
	Obligation string `json:"obligation"`
	What       string `json:"what"`
	Status     string `json:"status"` // known | fixed
	Commit     string `json:"commit,omitempty"`
	Replay     string `json:"replay,omitempty"`
}

type KnownFindings struct {
	Findings []KnownFinding `json:"findings"`
	Fixed    []string       `json:"fixed"`
}

func loadKnown(path string) *KnownFindings {
	kf := &KnownFindings{}
	b, err := os.ReadFile(path)
	if err != nil {
		return kf
	}
	if err := json.Unmarshal(b, kf); err != nil {
		fmt.Fprintln(os.Stderr, "known_findings.json:", err)
	}
	return kf
}

func hasTag(tags []string, p string) bool {
	for _, t := range tags {
		if t == p {
			return true
		}
	}
	return false
}

type funcReport struct {
	Name        string `json:"name"`
	Obligations int    `json:"obligations"`
	Discharged  int    `json:"discharged"`
	Unsupported string `json:"unsupported,omitempty"`
}

func cmdCheck(args []string) {
	fs := flag.NewFlagSet("check", flag.ExitOnError)
	repo := fs.String("repo", "/repo", "repository root")
	tier := fs.String("tier", os.Getenv("VERIF_TIER"), "quick|thorough")
	verifDir := fs.String("verif", "/verif", "verif root")
	noEvidence := fs.Bool("no-evidence", false, "do not write the evidence file")
	verbose := fs.Bool("v", false, "verbose")
	replaysFlag := fs.String("replays", "", "directory for replay files (default <verif>/replays)")
	replayFile := fs.String("replay", "", "replay file of an earlier VIOLATION: re-decide just that obligation on the current tree")
	// allow "check C05 --tier quick": move leading positional arguments behind the flags
	var pos, rest []string
	for i := 0; i < len(args); i++ {
		if strings.HasPrefix(args[i], "-") {
			rest = append(rest, args[i])
			if !strings.Contains(args[i], "=") && i+1 < len(args) && !strings.HasPrefix(args[i+1], "-") && args[i] != "-v" && args[i] != "--no-evidence" && args[i] != "-no-evidence" && args[i] != "--v" {
				i++
				rest = append(rest, args[i])
			}
		} else {
			pos = append(pos, args[i])
		}
	}
	fs.Parse(append(rest, pos...))
	replayObl := ""
	if *replayFile != "" {
		b, err := os.ReadFile(*replayFile)
		var rc map[string]interface{}
		if err != nil || json.Unmarshal(b, &rc) != nil {
			fmt.Fprintln(os.Stderr, "cannot read replay file", *replayFile)
			os.Exit(2)
		}
		replayObl, _ = rc["obligation"].(string)
		if p, _ := rc["property"].(string); p != "" && fs.NArg() < 1 {
			fs.Parse(append(rest, p))
		}
		*noEvidence = true
		fmt.Printf("replaying obligation %s (recorded result: %v)\n", replayObl, rc["result"])
		if so, ok := rc["solver_output"].(string); ok && so != "" {
			fmt.Println("recorded verifier output:\n" + so)
		}
	}
	if fs.NArg() < 1 {
		fmt.Fprintln(os.Stderr, "usage: govc check <property> [--tier quick|thorough]")
		os.Exit(2)
	}
	prop := fs.Arg(0)
	if *tier == "" {
		*tier = "quick"
	}
	seed := int64(1)
	if s := os.Getenv("VERIF_SEED"); s != "" {
		if n, err := strconv.ParseInt(s, 10, 64); err == nil {
			seed = n
		}
	}
	t0 := time.Now()
	w, err := LoadWorld(*repo, filepath.Join(*verifDir, "contracts"))
	violations := 0
	var vioLines []string
	replayDir := filepath.Join(*verifDir, "replays")
	if *replaysFlag != "" {
		replayDir = *replaysFlag
	}
	os.MkdirAll(replayDir, 0o755)
	writeReplay := func(name string, content map[string]interface{}) string {
		p := filepath.Join(replayDir, prop+"-"+sanitize(name)+".json")
		b, _ := json.MarshalIndent(content, "", " ")
		os.WriteFile(p, b, 0o644)
		return p
	}
	if err != nil {
		// the tree does not load (does not compile with the contracts): report as violation of the check's precondition
		p := writeReplay("load-failure", map[string]interface{}{"obligation": "load", "error": err.Error()})
		fmt.Printf("VIOLATION property=%s replay=%s no-failing-input-found\n", prop, p)
		os.Exit(1)
	}
	for _, e := range w.cs.Errors {
		fmt.Fprintln(os.Stderr, "contract error:", e)
	}
	if len(w.cs.Errors) > 0 {
		p := writeReplay("contract-files", map[string]interface{}{"obligation": "contract-files/parse", "errors": w.cs.Errors})
		fmt.Printf("VIOLATION property=%s replay=%s no-failing-input-found\n", prop, p)
		os.Exit(1)
	}
	known := loadKnown(filepath.Join(*verifDir, "known_findings.json"))

	// budgets: the slowest obligation on the pinned tree needs ~25 s of z3 on this 16-core machine; 80 s (quick)
	// leaves a factor of three for a slower or busier machine. Canaries get a short budget: they only have to
	// fail to be proved.
	timeout, canaryT, agree := 80, 2, 1
	if *tier == "thorough" {
		timeout, canaryT, agree = 160, 5, 2
		solvers = append(solvers, oldZ3)
	}

	// generate VCs for every contracted function and every lemma
	var vcs []*VC
	for _, fn := range w.repoFunctions() {
		fc := w.contractFor(fn)
		if fc == nil || fc.NoBody {
			continue
		}
		vc := w.NewVC(fn, fc)
		vc.Generate()
		vc.finishAxioms()
		vcs = append(vcs, vc)
	}
	// package initializers of packages that declare global invariants
	initPkgs := map[string]bool{}
	for _, gi := range w.cs.GlobalInvs {
		initPkgs[gi.Pkg] = true
	}
	for _, fn := range w.repoFunctions() {
		if fn.Synthetic != "" && fn.Name() == "init" && fn.Pkg != nil && initPkgs[fn.Pkg.Pkg.Path()] {
			vc := w.NewVC(fn, nil)
			vc.Generate()
			vc.finishAxioms()
			vcs = append(vcs, vc)
		}
	}
	for _, n := range w.cs.LemmaOrder {
		vc := w.lemmaVC(w.cs.Lemmas[n])
		vc.finishAxioms()
		vcs = append(vcs, vc)
	}
	extra := w.extraChecks(prop)
	if replayObl != "" {
		var keep []extraCheck
		for _, x := range extra {
			if x.Name == replayObl {
				keep = append(keep, x)
			}
		}
		extra = keep
	}

	var obls []*Obligation
	var funcs []*funcReport
	var unsupported []string
	assumed := map[string]bool{}
	explicitAssumes := []string{}
	unknownCalls := map[string]bool{}
	for _, vc := range vcs {
		relevant := hasTag(vc.defTags, prop)
		for _, o := range vc.obls {
			if hasTag(o.Tags, prop) {
				relevant = true
			}
		}
		if !relevant {
			continue
		}
		fr := &funcReport{Name: vc.name}
		funcs = append(funcs, fr)
		if vc.unsup != "" {
			fr.Unsupported = vc.unsup
			unsupported = append(unsupported, vc.name+": "+vc.unsup)
			continue
		}
		for _, o := range vc.obls {
			if replayObl != "" && canonObl(o.Name) != canonObl(replayObl) {
				continue
			}
			if hasTag(o.Tags, prop) || o.Canary {
				obls = append(obls, o)
			}
		}
		for k := range vc.assumed {
			assumed[k] = true
		}
		explicitAssumes = append(explicitAssumes, vc.explicitAssumes...)
		for _, c := range vc.unknownCalls {
			unknownCalls[vc.name+" -> "+c] = true
		}
	}
	// contracts that lost their function (renamed/removed): binding failure
	for key, fc := range w.cs.Funcs {
		if fc.IsIface || fc.Trusted {
			continue
		}
		if !hasTag(fc.Tags, prop) {
			continue
		}
		if w.fnByKey[key] == nil {
			unsupported = append(unsupported, key+": contract-binding: no such function in the current tree")
		}
	}

	dir, _ := os.MkdirTemp("", "govc-"+prop)
	defer os.RemoveAll(dir)
	maxFailures = 12
	res := solveAll(obls, dir, timeout, canaryT, agree, parallelObligations())

	byFunc := map[string]*funcReport{}
	for _, f := range funcs {
		byFunc[f.Name] = f
	}
	nObl, nDis, nCanary, nSkipped := 0, 0, 0, 0
	var solverTotal float64
	var failed []*SolveResult
	var knownHit []string
	backends := map[string]int{}
	var samples []map[string]interface{}
	var slow []*SolveResult
	for _, r := range res {
		solverTotal += r.Secs
		if r.obl != nil && r.obl.Canary {
			nCanary++
			if r.Result == "vacuous" {
				failed = append(failed, r)
			}
			continue
		}
		if r.Result == "skipped" {
			nSkipped++
			continue
		}
		nObl++
		if f := byFunc[r.obl.Func]; f != nil {
			f.Obligations++
		}
		if r.Result == "unsat" {
			nDis++
			backends[r.Backend]++
			if f := byFunc[r.obl.Func]; f != nil {
				f.Discharged++
			}
			if len(samples) < 6 && r.Backend != "trivial" {
				samples = append(samples, map[string]interface{}{"obligation": r.Name, "kind": r.Kind, "backend": r.Backend, "solver_s": r.Secs, "smt_bytes": r.SMTBytes, "what": r.Info, "pos": r.Pos})
			}
			slow = append(slow, r)
			continue
		}
		failed = append(failed, r)
	}
	sort.Slice(slow, func(i, j int) bool { return slow[i].Secs > slow[j].Secs })
	var slowest []map[string]interface{}
	for i := 0; i < len(slow) && i < 10; i++ {
		slowest = append(slowest, map[string]interface{}{"obligation": slow[i].Name, "solver_s": slow[i].Secs, "backend": slow[i].Backend})
	}

	// bounded stand-ins for assumed contracts of functions outside the verified subset
	sres := runStandins(prop, *tier, *repo, *verifDir)
	if replayObl != "" {
		var keep []standinResult
		for _, sr := range sres {
			if "standin:"+sr.Name == replayObl {
				keep = append(keep, sr)
			}
		}
		sres = keep
	}
	var standinEv []map[string]interface{}
	for _, sr := range sres {
		standinEv = append(standinEv, map[string]interface{}{"function": sr.Name, "level": "bounded", "bound": sr.Bound, "stands_in_for": sr.StandsInFor, "passed": sr.OK, "wall_s": sr.Secs, "cmd": sr.Cmd})
		if !sr.OK {
			failed = append(failed, &SolveResult{Name: "standin:" + sr.Name, Kind: "bounded-standin", Result: "failed", Info: "bounded stand-in for the assumed contract failed on the real function (failing input in solver_output)", Output: sr.Output})
		}
	}
	// extra (non-SMT) checks: SSA scans etc.
	for _, x := range extra {
		nObl++
		if x.OK {
			nDis++
			if strings.HasPrefix(x.Name, "lean:") {
				backends["lean4"]++
			} else {
				backends["ssa-scan"]++
			}
			if len(samples) < 8 {
				samples = append(samples, map[string]interface{}{"obligation": x.Name, "kind": "ssa-scan", "what": x.What})
			}
		} else {
			failed = append(failed, &SolveResult{Name: x.Name, Kind: "ssa-scan", Result: "failed", Info: x.What, Output: x.Detail})
		}
	}

	isKnown := func(name string) *KnownFinding {
		for i := range known.Findings {
			k := &known.Findings[i]
			if k.Property == prop && canonObl(k.Obligation) == canonObl(name) && k.Status != "fixed" {
				return k
			}
		}
		return nil
	}
	excluded := []string{}
	knownPrinted := map[string]bool{}
	for _, r := range failed {
		if k := isKnown(r.Name); k != nil {
			if !knownPrinted[k.What] {
				knownPrinted[k.What] = true
				fmt.Printf("KNOWN-FINDING: property=%s %s\n", prop, k.What)
			}
			knownHit = append(knownHit, r.Name)
			excluded = append(excluded, r.Name)
			nObl-- // excluded from the proof claim, listed separately
			continue
		}
		violations++
		content := map[string]interface{}{
			"property": prop, "obligation": r.Name, "kind": r.Kind, "result": r.Result, "what": r.Info, "pos": r.Pos,
			"solver_output": r.Output,
		}
		suffix := " no-failing-input-found"
		if r.Kind == "bounded-standin" {
			suffix = "" // the stand-in ran the real function on a concrete failing input (recorded in the replay file)
		}
		if r.obl != nil {
			content["goal"] = r.obl.Goal
			content["path_condition"] = r.obl.PC
			if rp := tryReplay(w, r, *verifDir, dir, content); rp {
				suffix = ""
			}
		}
		p := writeReplay(r.Name, content)
		vioLines = append(vioLines, fmt.Sprintf("VIOLATION property=%s replay=%s%s", prop, p, suffix))
	}
	for _, u := range unsupported {
		violations++
		fname := strings.SplitN(u, ":", 2)[0]
		content := map[string]interface{}{"property": prop, "obligation": fname + "/contract-binding", "what": u,
			"result": "undecidable: the function left the verified subset or its contract no longer binds"}
		suffix := " no-failing-input-found"
		if tryReplay(w, &SolveResult{obl: &Obligation{Func: fname}}, *verifDir, dir, content) {
			suffix = ""
		}
		p := writeReplay("binding-"+u, content)
		vioLines = append(vioLines, fmt.Sprintf("VIOLATION property=%s replay=%s%s", prop, p, suffix))
	}
	// obligation-count guard against a harness that silently generates nothing
	expected := loadExpected(filepath.Join(*verifDir, "contracts", "expected_counts.json"))
	if min, ok := expected[prop]; ok && replayObl == "" && nObl+len(excluded)+nSkipped < min {
		violations++
		p := writeReplay("obligation-count", map[string]interface{}{"property": prop, "obligation": "obligation-count", "what": fmt.Sprintf("only %d obligations generated, expected at least %d", nObl+len(excluded), min)})
		vioLines = append(vioLines, fmt.Sprintf("VIOLATION property=%s replay=%s no-failing-input-found", prop, p))
	}
	if replayObl != "" && nObl == 0 && violations == 0 && len(knownHit) == 0 {
		fmt.Printf("replay: obligation %s is not generated from the current tree (renamed or removed); run the full check\n", replayObl)
		os.Exit(2)
	}
	if nObl == 0 && violations == 0 {
		violations++
		p := writeReplay("no-obligations", map[string]interface{}{"property": prop, "obligation": "obligation-count", "what": "no obligations generated"})
		vioLines = append(vioLines, fmt.Sprintf("VIOLATION property=%s replay=%s no-failing-input-found", prop, p))
	}

	wall := time.Since(t0).Seconds()
	var assumedList []string
	for k := range assumed {
		switch {
		case strings.HasPrefix(k, "axiom "):
			k = "assumed axiom (contracts/external.spec or a contract file): " + k[6:]
		case strings.HasPrefix(k, "go:"):
			k = "assumed language semantics: " + k[3:]
		case strings.HasPrefix(k, "rename tolerated"):
		case strings.Contains(k, "::"):
			k = "assumed (trusted) contract, body not verified: " + k
		}
		assumedList = append(assumedList, k)
	}
	for i, a := range explicitAssumes {
		explicitAssumes[i] = "explicit `assume` in a contract (not proved): " + a
	}
	sort.Strings(assumedList)
	var unknownList []string
	for k := range unknownCalls {
		unknownList = append(unknownList, k)
	}
	sort.Strings(unknownList)
	var fnames []string
	for _, f := range funcs {
		fnames = append(fnames, f.Name)
	}
	ev := map[string]interface{}{
		"property_id": prop, "tier": *tier, "seed": seed, "level": "proof", "wall_s": wall, "violations": violations,
		"coverage": map[string]interface{}{
			"obligations": nObl, "discharged": nDis,
			"checker_cmd":  fmt.Sprintf("/verif/check %s --tier %s", prop, *tier),
			"trusted_base": trustedBase(),
			"functions_under_contract": funcs,
			"backends":     backends,
			"solver_s_total": solverTotal,
			"vacuity_canaries": nCanary,
			"samples":      samples,
			"slowest":      slowest,
			"known_findings_excluded": excluded,
			"unsupported_functions":   unsupported,
			"calls_without_contract":  unknownList,
			"per_obligation_timeout_s": timeout,
			"backends_required_to_agree": agree,
			"bounded_standins": standinEv,
		},
		"assumptions": append(append([]string{}, assumedList...), append(explicitAssumes, propAssumptions(prop)...)...),
	}
	if !*noEvidence {
		os.MkdirAll(filepath.Join(*verifDir, "evidence"), 0o755)
		b, _ := json.MarshalIndent(ev, "", " ")
		os.WriteFile(filepath.Join(*verifDir, "evidence", prop+".json"), b, 0o644)
	}
	if *verbose {
		for _, r := range res {
			fmt.Printf("  %-10s %-7s %6.2fs %s\n", r.Result, r.Backend, r.Secs, r.Name)
		}
	}
	fmt.Printf("property %s tier %s: %d obligations, %d discharged, %d canaries, %d known findings, %d violations, %.1fs\n", prop, *tier, nObl, nDis, nCanary, len(knownHit), violations, wall)
	if nSkipped > 0 {
		fmt.Printf("note: %d further obligations were not attempted after %d failures\n", nSkipped, maxFailures)
	}
	for _, l := range vioLines {
		fmt.Println(l)
	}
	if violations > 0 {
		os.RemoveAll(dir) // os.Exit skips the deferred cleanup
		os.Exit(1)
	}
}

// canonObl drops the running numbers from an obligation name ("f/post#38:label.2" -> "f/post:label"), so that a
// known finding is identified by function, kind and label, not by the count of obligations generated before it.
var canonRe = regexp.MustCompile("#[0-9]+|[.][0-9]+$")

func canonObl(n string) string { return canonRe.ReplaceAllString(n, "") }

// parallelObligations: every obligation races four solver processes, so a quarter of the cores (at least 2).
func parallelObligations() int {
	n := runtime.NumCPU() / 4
	if n < 2 {
		n = 2
	}
	if n > 6 {
		n = 6
	}
	return n
}

func loadExpected(path string) map[string]int {
	m := map[string]int{}
	b, err := os.ReadFile(path)
	if err == nil {
		json.Unmarshal(b, &m)
	}
	return m
}

func trustedBase() []string {
	return []string{
		"govc (this VC generator: SSA semantics of DESIGN.md Appendix B; tested by the must-fail corpus and vacuity canaries, not verified)",
		"golang.org/x/tools/go/ssa v0.29.0 translation of the source files",
		"SMT solvers z3 4.8.12 / z3 5.1.0 / cvc5 1.0.3 (an unsat answer is believed)",
		"machine integers modelled as mathematical Int with explicit overflow obligations; all lengths <= 2^40",
		"assumed contracts of external functions in /verif/contracts/*.spec (listed under assumptions when used)",
	}
}

type extraCheck struct {
	Name   string
	OK     bool
	What   string
	Detail string
}


// A bounded stand-in: a Go test run against the real function where a contract had to be ASSUMED because
// the function is outside the verified subset. Labelled bounded in the evidence, never counted as proved.
type standin struct {
	Name          string   `json:"name"`
	Properties    []string `json:"properties"`
	Pkg           string   `json:"pkg"`
	Test          string   `json:"test"`
	RunQuick      string   `json:"run_quick"`
	RunThorough   string   `json:"run_thorough"`
	BoundQuick    string   `json:"bound_quick"`
	BoundThorough string   `json:"bound_thorough"`
	StandsInFor   string   `json:"stands_in_for"`
	Flags         []string `json:"flags"` // extra go test flags, e.g. -race
}

type standinResult struct {
	Name, Bound, StandsInFor, Cmd, Output string
	OK                                   bool
	Secs                                 float64
}

func runStandins(prop, tier, repo, verifDir string) []standinResult {
	var all []standin
	b, err := os.ReadFile(filepath.Join(verifDir, "standins", "standins.json"))
	if err != nil {
		return nil
	}
	if err := json.Unmarshal(b, &all); err != nil {
		fmt.Fprintln(os.Stderr, "standins.json:", err)
		return nil
	}
	var out []standinResult
	for _, s := range all {
		if !hasTag(s.Properties, prop) {
			continue
		}
		run, bound := s.RunQuick, s.BoundQuick
		if tier == "thorough" {
			run, bound = s.RunThorough, s.BoundThorough
		}
		if run == "" {
			continue // this stand-in runs in the other tier only
		}
		tmp, _ := os.MkdirTemp("", "standin")
		tf := filepath.Join(verifDir, s.Test)
		ov := fmt.Sprintf(`{"Replace":{"%s/%s/zz_standin_%s":"%s"}}`, repo, s.Pkg, filepath.Base(tf), tf)
		os.WriteFile(filepath.Join(tmp, "ov.json"), []byte(ov), 0o644)
		args := append([]string{"test"}, s.Flags...)
		args = append(args, "-overlay", filepath.Join(tmp, "ov.json"), "-vet=off", "-count=1", "-timeout", "20m", "-run", "^"+run+"$", ".")
		cmd := exec.Command("go", args...)
		cmd.Dir = filepath.Join(repo, s.Pkg)
		cmd.Env = append(os.Environ(), "GOFLAGS=-mod=mod", "GOPROXY=off", "GOSUMDB=off", "GOTOOLCHAIN=local")
		t0 := time.Now()
		o, err := cmd.CombinedOutput()
		os.RemoveAll(tmp)
		txt := string(o)
		if len(txt) > 6000 {
			txt = txt[:6000] + "\n[...]"
		}
		ok := err == nil && strings.Contains(string(o), "ok  ") && !strings.Contains(string(o), "no tests to run")
		out = append(out, standinResult{Name: s.Name, Bound: bound, StandsInFor: s.StandsInFor, OK: ok, Secs: time.Since(t0).Seconds(), Output: txt,
			Cmd: fmt.Sprintf("cd %s/%s && go test %s -overlay <%s as in-package test> -vet=off -count=1 -run '^%s$' .", repo, s.Pkg, strings.Join(s.Flags, " "), s.Test, run)})
	}
	return out
}

// propAssumptions: the standing scope/assumption note of the property's claim (tools/claims.json).
func propAssumptions(prop string) []string {
	b, err := os.ReadFile("/verif/tools/claims.json")
	if err != nil {
		return nil
	}
	var m map[string]map[string]string
	if json.Unmarshal(b, &m) != nil || m[prop] == nil || m[prop]["note"] == "" {
		return nil
	}
	return []string{"scope and standing assumptions of this claim: " + m[prop]["note"],
		"machine integers are mathematical integers with an explicit no-overflow obligation at every arithmetic instruction; lengths, declared heights and measured widths are assumed below 2^40",
		"induction over build histories (every public operation preserves the invariant, hence every reachable table satisfies it) is a paper step"}
}

// Counterexample search. The solvers answer unknown/timeout (no model) on a failed obligation, so a failing
// input is looked for separately: for some functions /verif/replay/harness.json names a Go test that runs the
// REAL function over a small exhaustive domain and compares with an executable reading of its contract. It is
// run only when an obligation of that function has failed. A failure of the harness is a concrete failing input
// replayed on the real code (VIOLATION line without the no-failing-input-found suffix); if it finds nothing the
// violation stands as reported by the verifier.
type searchHarness struct {
	Funcs []string `json:"funcs"`
	Pkg   string   `json:"pkg"`
	Test  string   `json:"test"`
	Run   string   `json:"run"`
	Bound string   `json:"bound"`
}

var searchCache = map[string]*standinResult{}

func tryReplay(w *World, r *SolveResult, verifDir, tmp string, content map[string]interface{}) bool {
	if r.obl == nil {
		return false
	}
	b, err := os.ReadFile(filepath.Join(verifDir, "replay", "harness.json"))
	if err != nil {
		return false
	}
	var hs []searchHarness
	if json.Unmarshal(b, &hs) != nil {
		return false
	}
	for _, h := range hs {
		match := false
		for _, f := range h.Funcs {
			if strings.HasPrefix(r.obl.Func, f) {
				match = true
			}
		}
		if !match {
			continue
		}
		res := searchCache[h.Test]
		if res == nil {
			d, _ := os.MkdirTemp("", "search")
			tf := filepath.Join(verifDir, h.Test)
			ov := fmt.Sprintf(`{"Replace":{"%s/%s/zz_search_%s":"%s"}}`, w.repo, h.Pkg, filepath.Base(tf), tf)
			os.WriteFile(filepath.Join(d, "ov.json"), []byte(ov), 0o644)
			cmd := exec.Command("go", "test", "-overlay", filepath.Join(d, "ov.json"), "-vet=off", "-count=1", "-timeout", "5m", "-run", "^"+h.Run+"$", ".")
			cmd.Dir = filepath.Join(w.repo, h.Pkg)
			cmd.Env = append(os.Environ(), "GOFLAGS=-mod=mod", "GOPROXY=off", "GOSUMDB=off", "GOTOOLCHAIN=local")
			o, err := cmd.CombinedOutput()
			os.RemoveAll(d)
			txt := string(o)
			if len(txt) > 4000 {
				txt = txt[:4000] + "\n[...]"
			}
			res = &standinResult{OK: err == nil, Output: txt, Bound: h.Bound,
				Cmd: fmt.Sprintf("cd %s/%s && go test -overlay <%s as in-package test> -vet=off -count=1 -run '^%s$' .", w.repo, h.Pkg, h.Test, h.Run)}
			if err != nil && !strings.Contains(txt, "failing input") {
				// the harness itself did not build or crashed: not a counterexample
				res.OK = true
				res.Output = "harness did not run: " + txt
			}
			searchCache[h.Test] = res
		}
		content["counterexample_search"] = map[string]interface{}{"cmd": res.Cmd, "bound": res.Bound, "found_failing_input": !res.OK, "output": res.Output}
		return !res.OK
	}
	return false
}
