package main

import (
	"fmt"
	"go/types"
	"os"
	"path/filepath"
	"sort"
	"strings"

	"golang.org/x/tools/go/packages"
	"golang.org/x/tools/go/ssa"
	"golang.org/x/tools/go/ssa/ssautil"
)

const repoModule = "go.pennock.tech/tabular"

type World struct {
	repo    string
	prog    *ssa.Program
	pkgs    map[string]*ssa.Package // import path -> package
	tpkgs   map[string]*types.Package
	byName  map[string][]*types.Package // package name -> packages
	cs      *ContractSet
	fnByKey map[string]*ssa.Function
	pkgDirs map[string]string // dir -> import path (repo packages)
	allFns  map[*ssa.Function]bool
	globalIDs map[*ssa.Global]int
}

func fnKey(fn *ssa.Function) string {
	if fn.Pkg == nil {
		// synthetic wrappers etc: use the receiver's package if possible
		if recv := fn.Signature.Recv(); recv != nil {
			if p := pkgOfType(recv.Type()); p != nil {
				return p.Path() + "::" + fn.RelString(p)
			}
		}
		return "::" + fn.String()
	}
	return fn.Pkg.Pkg.Path() + "::" + fn.RelString(fn.Pkg.Pkg)
}

func pkgOfType(t types.Type) *types.Package {
	for {
		switch u := t.(type) {
		case *types.Pointer:
			t = u.Elem()
			continue
		case *types.Named:
			return u.Obj().Pkg()
		}
		return nil
	}
}

func LoadWorld(repo, specDir string) (*World, error) {
	cfg := &packages.Config{Mode: packages.LoadAllSyntax, Dir: repo, BuildFlags: []string{"-tags=verif"}, Tests: false}
	pkgs, err := packages.Load(cfg, "./...")
	if err != nil {
		return nil, err
	}
	nerr := 0
	packages.Visit(pkgs, nil, func(p *packages.Package) {
		for _, e := range p.Errors {
			if strings.HasPrefix(p.PkgPath, repoModule) {
				fmt.Fprintln(os.Stderr, "load error:", e)
				nerr++
			}
		}
	})
	if nerr > 0 {
		return nil, fmt.Errorf("%d load errors in repo packages", nerr)
	}
	prog, _ := ssautil.AllPackages(pkgs, ssa.InstantiateGenerics|ssa.GlobalDebug)
	prog.Build()
	w := &World{repo: repo, prog: prog, pkgs: map[string]*ssa.Package{}, tpkgs: map[string]*types.Package{}, byName: map[string][]*types.Package{},
		fnByKey: map[string]*ssa.Function{}, pkgDirs: map[string]string{}}
	for _, p := range prog.AllPackages() {
		w.pkgs[p.Pkg.Path()] = p
		w.tpkgs[p.Pkg.Path()] = p.Pkg
		w.byName[p.Pkg.Name()] = append(w.byName[p.Pkg.Name()], p.Pkg)
	}
	packages.Visit(pkgs, nil, func(p *packages.Package) {
		if strings.HasPrefix(p.PkgPath, repoModule) && len(p.GoFiles) > 0 && !strings.HasSuffix(p.PkgPath, "/examples") {
			w.pkgDirs[filepath.Dir(p.GoFiles[0])] = p.PkgPath
		}
	})
	w.allFns = ssautil.AllFunctions(prog)
	for fn := range w.allFns {
		w.fnByKey[fnKey(fn)] = fn
	}
	w.cs = LoadContracts(repo, specDir, w.pkgDirs)
	return w, nil
}

func (w *World) isRepoPkg(p *types.Package) bool {
	return p != nil && strings.HasPrefix(p.Path(), repoModule)
}

// repoFunctions lists every function with a body that belongs to a repo package (excluding examples).
func (w *World) repoFunctions() []*ssa.Function {
	var out []*ssa.Function
	for fn := range w.allFns {
		if fn.Blocks == nil {
			continue
		}
		var p *types.Package
		if fn.Pkg != nil {
			p = fn.Pkg.Pkg
		} else if recv := fn.Signature.Recv(); recv != nil {
			p = pkgOfType(recv.Type())
		}
		if !w.isRepoPkg(p) || strings.HasSuffix(p.Path(), "/examples") {
			continue
		}
		out = append(out, fn)
	}
	sort.Slice(out, func(i, j int) bool { return fnKey(out[i]) < fnKey(out[j]) })
	return out
}

// contractFor finds the contract of a static callee / function under verification.
func (w *World) contractFor(fn *ssa.Function) *FuncContract {
	return w.cs.Funcs[fnKey(fn)]
}

// ifaceContract finds the interface-level contract for an invoke of method m on interface type t.
func (w *World) ifaceContract(recv types.Type, m *types.Func) *FuncContract {
	// named interface where the method is declared (embedded interfaces: use the declaring one)
	cands := []string{}
	if n, ok := recv.(*types.Named); ok && n.Obj().Pkg() != nil {
		cands = append(cands, n.Obj().Pkg().Path()+"::"+n.Obj().Name()+"."+m.Name())
	} else if n, ok := recv.(*types.Named); ok { // universe: error
		cands = append(cands, "::"+n.Obj().Name()+"."+m.Name())
	}
	// declaring interface of the method
	if sig, ok := m.Type().(*types.Signature); ok && sig.Recv() != nil {
		if n, ok := sig.Recv().Type().(*types.Named); ok {
			if n.Obj().Pkg() != nil {
				cands = append(cands, n.Obj().Pkg().Path()+"::"+n.Obj().Name()+"."+m.Name())
			} else {
				cands = append(cands, "::"+n.Obj().Name()+"."+m.Name())
			}
		}
	}
	for _, c := range cands {
		if fc, ok := w.cs.Funcs[c]; ok {
			return fc
		}
	}
	return nil
}

// resolveType resolves a textual spec type relative to a package.
func (w *World) resolveType(te *STypeExpr, from *types.Package) (types.Type, string, error) {
	if te.Raw != "" {
		return nil, te.Raw, nil
	}
	if te.Slice {
		et, _, err := w.resolveType(te.Elem, from)
		if err != nil {
			return nil, "", err
		}
		if et == nil {
			return nil, "", fmt.Errorf("slice of ghost sort %s", te.Elem)
		}
		return types.NewSlice(et), "Slice", nil
	}
	var base types.Type
	if te.Pkg == "" {
		switch te.Name {
		case "int", "int64", "int32", "uint8", "byte", "rune", "bool", "string", "error", "uint", "int8", "int16", "uint16", "uint32", "uint64", "any":
			obj := types.Universe.Lookup(te.Name)
			base = obj.Type()
		case "Int", "Bool", "Str", "Loc", "Slice", "Iface", "Type", "Any", "Fn":
			if te.Ptr > 0 {
				return nil, "", fmt.Errorf("pointer to ghost sort")
			}
			return nil, te.Name, nil
		default:
			if from != nil {
				if obj := from.Scope().Lookup(te.Name); obj != nil {
					if tn, ok := obj.(*types.TypeName); ok {
						base = tn.Type()
					}
				}
			}
			if base == nil {
				// search all repo packages for a unique type name
				for _, p := range w.tpkgs {
					if !w.isRepoPkg(p) {
						continue
					}
					if obj := p.Scope().Lookup(te.Name); obj != nil {
						if tn, ok := obj.(*types.TypeName); ok {
							base = tn.Type()
							break
						}
					}
				}
			}
		}
	} else {
		var cands []*types.Package
		if from != nil {
			for _, imp := range from.Imports() {
				if imp.Name() == te.Pkg {
					cands = append(cands, imp)
				}
			}
			if from.Name() == te.Pkg {
				cands = append(cands, from)
			}
		}
		if len(cands) == 0 {
			ps := w.byName[te.Pkg]
			// prefer repo packages
			for _, p := range ps {
				if w.isRepoPkg(p) {
					cands = append(cands, p)
				}
			}
			if len(cands) == 0 {
				cands = ps
			}
		}
		for _, p := range cands {
			if obj := p.Scope().Lookup(te.Name); obj != nil {
				if tn, ok := obj.(*types.TypeName); ok {
					base = tn.Type()
					break
				}
			}
		}
	}
	if base == nil {
		return nil, "", fmt.Errorf("unknown type %s", te)
	}
	for i := 0; i < te.Ptr; i++ {
		base = types.NewPointer(base)
	}
	return base, "", nil
}


// resolveFieldHeap resolves heap designators Type.field / pkg.Type.field to (struct type, field index).
func (w *World) resolveFieldHeap(te *STypeExpr, from *types.Package) (types.Type, int, bool) {
	var stE *STypeExpr
	var field string
	switch {
	case te.Field != "":
		stE, field = &STypeExpr{Pkg: te.Pkg, Name: te.Name}, te.Field
	case te.Pkg != "":
		stE, field = &STypeExpr{Name: te.Pkg}, te.Name
	default:
		return nil, 0, false
	}
	stT, _, err := w.resolveType(stE, from)
	if err != nil || stT == nil {
		return nil, 0, false
	}
	st, ok := stT.Underlying().(*types.Struct)
	if !ok {
		return nil, 0, false
	}
	for i := 0; i < st.NumFields(); i++ {
		if st.Field(i).Name() == field {
			return stT, i, true
		}
	}
	return nil, 0, false
}
