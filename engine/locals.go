package main

// Tolerance for harmless renames. Contracts name parameters and locals of the functions they annotate; a pure
// rename in /repo must not turn into an alarm. `govc locals` records, for every function under contract, the
// names of its parameters, results and local variables in declaration order (contracts/locals.json, generated
// from the pinned tree). When a contract mentions a name the current function no longer declares, and the
// function still declares the same number of variables, the name is mapped to the variable at the same position.
// Binding an invariant to another variable is sound: the obligations it generates still have to be proved.

import (
	"encoding/json"
	"fmt"
	"go/ast"
	"go/token"
	"os"
	"path/filepath"
	"sort"

	"golang.org/x/tools/go/ssa"
)

func declNames(fn *ssa.Function) []string {
	syn := fn.Syntax()
	if syn == nil {
		return nil
	}
	type d struct {
		pos  token.Pos
		name string
	}
	var ds []d
	seen := map[token.Pos]bool{}
	add := func(id *ast.Ident) {
		if id == nil || id.Name == "_" || seen[id.Pos()] {
			return
		}
		seen[id.Pos()] = true
		ds = append(ds, d{id.Pos(), id.Name})
	}
	fields := func(fl *ast.FieldList) {
		if fl == nil {
			return
		}
		for _, f := range fl.List {
			for _, n := range f.Names {
				add(n)
			}
		}
	}
	var body *ast.BlockStmt
	switch s := syn.(type) {
	case *ast.FuncDecl:
		fields(s.Recv)
		fields(s.Type.Params)
		fields(s.Type.Results)
		body = s.Body
	case *ast.FuncLit:
		fields(s.Type.Params)
		fields(s.Type.Results)
		body = s.Body
	}
	if body != nil {
		ast.Inspect(body, func(n ast.Node) bool {
			switch x := n.(type) {
			case *ast.FuncLit:
				return false
			case *ast.AssignStmt:
				if x.Tok == token.DEFINE {
					for _, l := range x.Lhs {
						if id, ok := l.(*ast.Ident); ok && id.Obj != nil && id.Obj.Pos() == id.Pos() {
							add(id)
						}
					}
				}
			case *ast.ValueSpec:
				for _, id := range x.Names {
					add(id)
				}
			case *ast.RangeStmt:
				if x.Tok == token.DEFINE {
					if id, ok := x.Key.(*ast.Ident); ok {
						add(id)
					}
					if id, ok := x.Value.(*ast.Ident); ok {
						add(id)
					}
				}
			case *ast.TypeSwitchStmt:
				if as, ok := x.Assign.(*ast.AssignStmt); ok && as.Tok == token.DEFINE {
					if id, ok := as.Lhs[0].(*ast.Ident); ok {
						add(id)
					}
				}
			}
			return true
		})
	}
	sort.SliceStable(ds, func(i, j int) bool { return ds[i].pos < ds[j].pos })
	var out []string
	for _, x := range ds {
		out = append(out, x.name)
	}
	return out
}

func cmdLocals(args []string) {
	w := loadOrDie("/repo")
	m := map[string][]string{}
	for _, fn := range w.repoFunctions() {
		if w.contractFor(fn) == nil {
			continue
		}
		m[fnKey(fn)] = declNames(fn)
	}
	b, _ := json.MarshalIndent(m, "", " ")
	fmt.Println(string(b))
}

var baselineLocals map[string][]string

func (w *World) baselineNames(key string) []string {
	if baselineLocals == nil {
		baselineLocals = map[string][]string{}
		if b, err := os.ReadFile(filepath.Join("/verif", "contracts", "locals.json")); err == nil {
			json.Unmarshal(b, &baselineLocals)
		}
	}
	return baselineLocals[key]
}

// renamed maps a name used by a contract to the current name of the variable declared at the same position.
func (vc *VC) renamed(name string) (string, bool) {
	if vc.fn == nil {
		return "", false
	}
	if vc.renames == nil {
		vc.renames = map[string]string{}
		base := vc.w.baselineNames(fnKey(vc.fn))
		cur := declNames(vc.fn)
		if len(base) == len(cur) && len(base) > 0 {
			have := map[string]bool{}
			for _, n := range cur {
				have[n] = true
			}
			for i, n := range base {
				if n != cur[i] && !have[n] {
					vc.renames[n] = cur[i]
				}
			}
		}
	}
	alt, ok := vc.renames[name]
	return alt, ok
}
