package main

// Package-level state scan (C16, C17): ground frame/ownership obligations decided on the SSA form, no solver needed.
//
//   `//@ global NAME immutable|guarded  -- why`   declares a package-level variable of the package
//
// Obligations (one per item, named so that a failure points at the offending function/variable):
//   global-declared:<pkg>.<var>        every package-level variable is declared
//   global-store:<fn>:<var>            no function outside package initialisation stores to (a part of) a variable
//   global-escape:<fn>:<var>           no function takes the address of (a part of) an immutable variable
//                                      for anything but reading it
//   pointee-store:<fn>:<type>.<field>  for an immutable variable that points to a repository struct: nobody
//                                      stores to that struct's fields except into an object allocated by the
//                                      same function (composite literal)
//   guarded-access:<fn>:<var>          every function touching a guarded variable is under contract (so its
//                                      lock-discipline obligations are generated)

import (
	"fmt"
	"go/types"
	"os"
	"os/exec"
	"sort"
	"strings"

	"golang.org/x/tools/go/ssa"
)

type GlobalDecl struct {
	Pkg, Name, Mode, Why string
	File                 string
	Line                 int
}

func (w *World) allRepoFuncsWithClosures() []*ssa.Function {
	seen := map[*ssa.Function]bool{}
	var out []*ssa.Function
	var add func(fn *ssa.Function)
	add = func(fn *ssa.Function) {
		if seen[fn] || fn.Blocks == nil {
			return
		}
		seen[fn] = true
		out = append(out, fn)
		for _, a := range fn.AnonFuncs {
			add(a)
		}
	}
	for _, fn := range w.repoFunctions() {
		add(fn)
	}
	sort.Slice(out, func(i, j int) bool { return out[i].String() < out[j].String() })
	return out
}

func rootOf(v ssa.Value) ssa.Value {
	for {
		switch y := v.(type) {
		case *ssa.FieldAddr:
			v = y.X
		case *ssa.IndexAddr:
			v = y.X
		default:
			return v
		}
	}
}

func isPkgInit(fn *ssa.Function) bool {
	for f := fn; f != nil; f = f.Parent() {
		if f.Synthetic == "package initializer" || isInitFunc(f) {
			return true
		}
	}
	return false
}

// leanLemma: the parse-back lemma of C05 is a Lean 4 development over the specification of the quoting
// (not over Go code); it is re-checked by `lean` on every run of the C05 check.
func leanLemma() []extraCheck {
	f := "/verif/lean/CsvRoundTrip.lean"
	src, err := os.ReadFile(f)
	if err != nil {
		return []extraCheck{{Name: "lean:CsvRoundTrip", OK: false, What: "Lean file missing: " + f}}
	}
	if strings.Contains(string(src), "sorry") || strings.Contains(string(src), "axiom ") {
		return []extraCheck{{Name: "lean:CsvRoundTrip", OK: false, What: "the Lean development contains sorry/axiom"}}
	}
	cmd := exec.Command("lean", f)
	out, err := cmd.CombinedOutput()
	ok := err == nil && !strings.Contains(string(out), "error")
	return []extraCheck{{Name: "lean:CsvRoundTrip", OK: ok, Detail: string(out),
		What: "Lean 4 accepts read_quote / read_record / read_file: a strict RFC 4180 reader gets back exactly the fields, records and rows from the all-fields-quoted text (" + f + ")"}}
}

func (w *World) extraChecks(prop string) []extraCheck {
	if prop == "C05" {
		return leanLemma()
	}
	if prop == "C15" {
		return w.writerScan()
	}
	if prop != "C16" && prop != "C17" {
		return nil
	}
	var out []extraCheck
	decl := map[string]*GlobalDecl{}
	for _, d := range w.cs.Globals {
		decl[d.Pkg+"."+d.Name] = d
	}
	for _, g := range w.cs.Guards {
		if decl[g.Pkg+"."+g.Var] == nil {
			decl[g.Pkg+"."+g.Var] = &GlobalDecl{Pkg: g.Pkg, Name: g.Var, Mode: "guarded", Why: "guard " + g.Var + "." + g.Field + " by " + g.Ghost}
		}
	}
	// 1. inventory
	var pkgPaths []string
	for p, sp := range w.pkgs {
		if sp != nil && w.isRepoPkg(sp.Pkg) && !strings.HasSuffix(p, "/examples") {
			pkgPaths = append(pkgPaths, p)
		}
	}
	sort.Strings(pkgPaths)
	immutablePointee := map[string]string{} // struct type string -> variable
	for _, p := range pkgPaths {
		var names []string
		for n, m := range w.pkgs[p].Members {
			if g, ok := m.(*ssa.Global); ok && g.Name() != "init$guard" {
				names = append(names, n)
			}
		}
		sort.Strings(names)
		for _, n := range names {
			g := w.pkgs[p].Members[n].(*ssa.Global)
			d := decl[p+"."+n]
			if prop == "C16" {
				ok := d != nil
				what := fmt.Sprintf("package-level variable %s.%s is declared (%s)", p, n, "")
				if d != nil {
					what = fmt.Sprintf("package-level variable %s.%s is declared %s: %s", p, n, d.Mode, d.Why)
				} else {
					what = fmt.Sprintf("package-level variable %s.%s has no `//@ global` declaration: new shared state?", p, n)
				}
				out = append(out, extraCheck{Name: "global-declared:" + p + "." + n, OK: ok, What: what})
			}
			if d != nil && d.Mode == "immutable" {
				et := g.Type().Underlying().(*types.Pointer).Elem()
				if pt, ok := et.Underlying().(*types.Pointer); ok {
					if _, isStruct := pt.Elem().Underlying().(*types.Struct); isStruct && w.isRepoPkg(pkgOfType(pt.Elem())) {
						immutablePointee[pt.Elem().String()] = p + "." + n
					}
				}
			}
		}
	}
	// 2..5 per function
	for _, fn := range w.allRepoFuncsWithClosures() {
		init := isPkgInit(fn)
		touchesGuarded := map[string]bool{}
		for _, b := range fn.Blocks {
			for _, in := range b.Instrs {
				// stores
				if st, ok := in.(*ssa.Store); ok {
					root := rootOf(st.Addr)
					if g, ok := root.(*ssa.Global); ok && g.Pkg != nil && w.isRepoPkg(g.Pkg.Pkg) && g.Name() != "init$guard" {
						key := g.Pkg.Pkg.Path() + "." + g.Name()
						d := decl[key]
						if d != nil && d.Mode == "guarded" {
							touchesGuarded[key] = true
						} else if !init && prop == "C16" {
							out = append(out, extraCheck{Name: "global-store:" + fn.String() + ":" + key, OK: false,
								What: fmt.Sprintf("%s stores to package-level variable %s outside package initialisation (%s)", fn, key, w.prog.Fset.Position(st.Pos()))})
						}
					}
					// store into a field of a struct type some immutable variable points to
					if fa, ok := st.Addr.(*ssa.FieldAddr); ok && prop == "C16" {
						stT := fa.X.Type().Underlying().(*types.Pointer).Elem()
						if v, hit := immutablePointee[stT.String()]; hit {
							if _, fresh := rootOf(fa.X).(*ssa.Alloc); !fresh {
								fld := stT.Underlying().(*types.Struct).Field(fa.Field).Name()
								out = append(out, extraCheck{Name: "pointee-store:" + fn.String() + ":" + stT.String() + "." + fld, OK: false,
									What: fmt.Sprintf("%s stores to %s.%s, the struct type immutable variable %s points to (%s)", fn, stT, fld, v, w.prog.Fset.Position(st.Pos()))})
							}
						}
					}
					continue
				}
				// other uses of a global's address
				for _, op := range in.Operands(nil) {
					g, ok := (*op).(*ssa.Global)
					if !ok || g.Pkg == nil || !w.isRepoPkg(g.Pkg.Pkg) || g.Name() == "init$guard" {
						continue
					}
					key := g.Pkg.Pkg.Path() + "." + g.Name()
					d := decl[key]
					if d != nil && d.Mode == "guarded" {
						touchesGuarded[key] = true
						continue
					}
					if prop != "C16" || init {
						continue
					}
					if !readOnlyUse(in, *op) {
						out = append(out, extraCheck{Name: "global-escape:" + fn.String() + ":" + key, OK: false,
							What: fmt.Sprintf("%s uses the address of package-level variable %s for something other than reading it (%s)", fn, key, w.prog.Fset.Position(in.Pos()))})
					}
				}
			}
		}
		var tg []string
		for k := range touchesGuarded {
			tg = append(tg, k)
		}
		sort.Strings(tg)
		for _, k := range tg {
			top := fn
			for top.Parent() != nil {
				top = top.Parent()
			}
			has := w.contractFor(top) != nil && top == fn
			if fc := w.contractFor(top); fc != nil && fc.NoBody {
				has = false
			}
			out = append(out, extraCheck{Name: "guarded-access:" + fn.String() + ":" + k, OK: has,
				What: fmt.Sprintf("%s touches guarded variable %s and is under contract (its lock-discipline obligations are generated): %v", fn, k, has)})
		}
	}
	if prop == "C16" {
		out = append(out, extraCheck{Name: "global-scan-complete", OK: true, What: fmt.Sprintf("scanned %d functions (closures included) of %d packages for stores to / escapes of package-level variables", len(w.allRepoFuncsWithClosures()), len(pkgPaths))})
	}
	return out
}

// readOnlyUse: the instruction only reads through the address v (load, or field/index address that is itself
// only read), or compares it.
func readOnlyUse(in ssa.Instruction, v ssa.Value) bool {
	switch x := in.(type) {
	case *ssa.UnOp:
		return true // load
	case *ssa.FieldAddr, *ssa.IndexAddr:
		val := in.(ssa.Value)
		refs := val.Referrers()
		if refs == nil {
			return false
		}
		for _, r := range *refs {
			if st, ok := r.(*ssa.Store); ok && st.Addr == val {
				continue // reported as a store
			}
			if !readOnlyUse(r, val) {
				return false
			}
		}
		return true
	case *ssa.DebugRef:
		return true
	case *ssa.BinOp:
		_ = x
		return true
	}
	return false
}

// writerScan (C15): the ghost-writer model keeps ONE log for "the destination writer". That is only the real
// writer's history if every io.Writer handed to a write call is the destination the function received (a
// parameter, or a parameter captured by a closure), or the function's own bytes.Buffer (the Render helpers).
// A writer built by the repository itself (a retrying, buffering or filtering wrapper) sits between the
// renderer and the destination and is not covered by the trusted io.Writer contract; such a call site is
// reported (ground obligation on the SSA form, no solver needed):
//   writer-is-the-destination:<fn>:<callee>#k
func (w *World) writerScan() []extraCheck {
	var out []extraCheck
	ioWriter := func(t types.Type) bool {
		n, ok := t.(*types.Named)
		return ok && n.Obj().Pkg() != nil && n.Obj().Pkg().Path() == "io" && n.Obj().Name() == "Writer"
	}
	var origin func(v ssa.Value, depth int) (bool, string)
	origin = func(v ssa.Value, depth int) (bool, string) {
		if depth > 8 {
			return false, "value too deeply nested"
		}
		switch y := v.(type) {
		case *ssa.Parameter:
			return true, ""
		case *ssa.FreeVar:
			return true, ""
		case *ssa.ChangeInterface:
			return origin(y.X, depth+1)
		case *ssa.MakeInterface:
			if strings.HasSuffix(y.X.Type().String(), "bytes.Buffer") {
				return true, ""
			}
			return false, "a " + y.X.Type().String() + " made into an io.Writer by this function"
		case *ssa.Phi:
			for _, e := range y.Edges {
				if ok, why := origin(e, depth+1); !ok {
					return false, why
				}
			}
			return true, ""
		case *ssa.UnOp: // load of a captured/boxed parameter: *freevar or *alloc holding the parameter
			if fv, ok := y.X.(*ssa.FreeVar); ok {
				_ = fv
				return true, ""
			}
			return false, "a writer loaded from memory (" + y.X.String() + ")"
		}
		return false, fmt.Sprintf("%T %s", v, v.String())
	}
	for _, fn := range w.allRepoFuncsWithClosures() {
		if fn.Synthetic != "" {
			continue
		}
		ord := map[string]int{}
		for _, b := range fn.Blocks {
			for _, in := range b.Instrs {
				ci, ok := in.(ssa.CallInstruction)
				if !ok {
					continue
				}
				c := ci.Common()
				name := ""
				var args []ssa.Value
				if c.IsInvoke() {
					if !ioWriter(c.Value.Type()) {
						continue
					}
					name = "io.Writer." + c.Method.Name()
					args = []ssa.Value{c.Value}
				} else {
					if sc := c.StaticCallee(); sc != nil {
						name = sc.String()
					} else {
						name = "dynamic call"
					}
					for _, a := range c.Args {
						if ioWriter(a.Type()) {
							args = append(args, a)
						}
					}
				}
				if len(args) == 0 {
					continue
				}
				ord[name]++
				for _, a := range args {
					ok, why := origin(a, 0)
					what := fmt.Sprintf("the io.Writer handed to %s in %s is the destination this function received (or its own bytes.Buffer)", name, fn.String())
					if !ok {
						what += " — it is " + why + " at " + w.prog.Fset.Position(in.Pos()).String()
					}
					out = append(out, extraCheck{Name: fmt.Sprintf("writer-is-the-destination:%s:%s#%d", fn.String(), name, ord[name]), OK: ok, What: what})
				}
			}
		}
	}
	return out
}
