package tabular

// D14 (C12): a column handle obtained earlier must keep addressing the same column as the table
// grows. t.columns is a []column grown with append, so growing past the capacity (10) moves the
// columns and an old handle writes to the abandoned copy.
// D15b (C13): InvokeRenderCallbacks hands column callbacks the address of a loop copy (&col), so
// properties they set are not visible through the table.

import "testing"

type d14key struct{}

type d15cb struct{}

func (d15cb) UpdateProperties(po PropertyOwner) error { po.SetProperty(d14key{}, "from-callback"); return nil }

func TestD14(t *testing.T) {
	tb := New()
	tb.AddRowItems("a")
	h := tb.Column(1)
	items := make([]interface{}, 12)
	for i := range items {
		items[i] = i
	}
	tb.AddRowItems(items...) // 12 columns: past the initial capacity
	h.SetProperty(d14key{}, "x")
	if got := tb.Column(1).GetProperty(d14key{}); got != "x" {
		t.Errorf("property set through a handle taken before the table grew is invisible: got %v", got)
	}
}

func TestD15b(t *testing.T) {
	tb := New()
	tb.AddRowItems("a")
	if err := tb.RegisterPropertyCallback(tb.Column(1), CB_AT_RENDER_PRECELL, CB_ON_ITSELF, d15cb{}); err != nil {
		t.Fatal(err)
	}
	tb.InvokeRenderCallbacks()
	if got := tb.Column(1).GetProperty(d14key{}); got != "from-callback" {
		t.Errorf("property set by a column callback is not visible through the table: got %v", got)
	}
}
