package tabular

// D10 (C11): AddErrorList on a zero-value container adopts the caller's list wholesale
// (nil entries included, and aliasing the caller's slice); on a nil receiver it panics.
// Run: go test -overlay (see /verif/findings/README.md)

import (
	"errors"
	"testing"
)

func TestD10(t *testing.T) {
	e := errors.New("x")
	var ec ErrorContainer
	ec.AddErrorList([]error{nil, e, nil})
	if got := ec.Errors(); len(got) != 1 || got[0] != e {
		t.Errorf("zero-value container: Errors() = %v, want exactly [x]", got)
	}
	func() {
		defer func() {
			if r := recover(); r != nil {
				t.Errorf("nil receiver: AddErrorList panicked: %v", r)
			}
		}()
		var p *ErrorContainer
		p.AddErrorList([]error{e})
	}()
}
