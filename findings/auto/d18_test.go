package auto

import (
	"testing"

	"go.pennock.tech/tabular/texttable/decoration"
)

// D18 (C19): a decoration registered under a name containing "." is advertised by ListStyles but
// auto.New(name) looks up only the section before the first ".", gets the empty decoration, and
// rendering fails.
func TestD18DottedRegisteredName(t *testing.T) {
	decoration.RegisterDecorationName("corp.boxes", decoration.ASCIIBoxSimple())
	listed := false
	for _, n := range ListStyles() {
		if n == "corp.boxes" {
			listed = true
		}
	}
	if !listed {
		t.Fatal("registered name not listed")
	}
	tb := New("corp.boxes")
	tb.AddRowItems("x")
	if _, err := tb.Render(); err != nil {
		t.Fatalf("listed style %q does not render: %v", "corp.boxes", err)
	}
}
