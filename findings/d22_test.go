package tabular

import "testing"

// D22 (C02): replacing the header row by a shorter one keeps the old, larger column count although neither
// the header nor any row has that many cells any more.
func TestD22HeaderReplacedByShorterOne(t *testing.T) {
	tb := New()
	tb.AddHeaders("a", "b", "c")
	tb.AddHeaders("a")
	tb.AddRowItems("x")
	want := 1 // largest number of cells in the header or in any row
	if got := tb.NColumns(); got != want {
		t.Fatalf("NColumns() = %d after the header was replaced by a 1-cell header and a 1-cell row was added; the widest header/row has %d", got, want)
	}
}
