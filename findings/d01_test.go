package tabular

// D1 (C01): a rune stored in a cell must show as that character; the `case rune:` arm of
// (*Cell).Update assigns nothing, so the text is "".

import "testing"

func TestD01(t *testing.T) {
	if got := NewCell('x').String(); got != "x" {
		t.Errorf("NewCell('x').String() = %q, want \"x\"", got)
	}
	c := NewCell('é')
	if c.Empty() || c.String() != "é" {
		t.Errorf("NewCell('é'): empty=%v text=%q", c.Empty(), c.String())
	}
}
