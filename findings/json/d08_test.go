package json

// D8 (C07): a separator after the last object leaves a dangling comma: `},\n\n\n]` is not valid JSON.

import (
	stdjson "encoding/json"
	"testing"

	"go.pennock.tech/tabular"
)

func TestD08(t *testing.T) {
	tb := tabular.New()
	tb.AddHeaders("h")
	tb.AddRowItems("x")
	tb.AddSeparator()
	out, err := Render(tb)
	if err != nil {
		t.Fatal(err)
	}
	var v []map[string]interface{}
	if err := stdjson.Unmarshal([]byte(out), &v); err != nil {
		t.Errorf("output %q is not valid JSON: %v", out, err)
	}
}
