package tabular

// D13 (C12): setting (here: unsetting) a property on a by-value copy of a cell must never change
// what the original reports; stripChainReturnValue edits shared chain links in place.

import "testing"

func TestD13(t *testing.T) {
	type k1 struct{}
	type k2 struct{}
	orig := NewCell("x")
	orig.SetProperty(k1{}, "one")
	orig.SetProperty(k2{}, "two")
	cp := orig // by-value copy shares the chain
	cp.SetProperty(k1{}, nil)
	if got := orig.GetProperty(k1{}); got != "one" {
		t.Errorf("original lost k1 after unsetting it on a copy: got %v", got)
	}
	if got := orig.GetProperty(k2{}); got != "two" {
		t.Errorf("original k2 = %v", got)
	}
}
