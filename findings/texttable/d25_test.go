package texttable

import (
	"testing"

	"go.pennock.tech/tabular"
	"go.pennock.tech/tabular/texttable/decoration"
)

// D25: a table with no columns but one (empty) row, rendered with a decoration whose body border is
// empty but whose inner divider is not, must not panic (C09).
func TestD25ZeroColumnsInnerOnlyDecoration(t *testing.T) {
	tb := tabular.New()
	tb.AddRow(tabular.NewRow())
	tt := Wrap(tb)
	tt.SetDecoration(decoration.Decoration{VBodyInner: "|", VHeader: ""})
	defer func() {
		if r := recover(); r != nil {
			t.Fatalf("render panicked: %v", r)
		}
	}()
	s, err := tt.Render()
	t.Logf("out=%q err=%v", s, err)
}

func TestD25bZeroColumnsBuiltin(t *testing.T) {
	for _, n := range decoration.RegisteredDecorationNames() {
		tb := tabular.New()
		tb.AddRow(tabular.NewRow())
		tb.AddSeparator()
		tt := Wrap(tb)
		tt.SetDecorationNamed(n)
		func() {
			defer func() {
				if r := recover(); r != nil {
					t.Errorf("%s: render panicked: %v", n, r)
				}
			}()
			s, err := tt.Render()
			t.Logf("%s out=%q err=%v", n, s, err)
		}()
	}
}
