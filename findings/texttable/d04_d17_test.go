package texttable

// D4 (C09, C04): an item declaring a height smaller than its number of text lines makes
//    dimensionSetter index past linesWidths and panic.
// D17 (C03, C04): a single-line item declaring its own display width is not laid out as that wide:
//    the padding is computed from the measured text instead.

import (
	"strings"
	"testing"

	"go.pennock.tech/tabular"
	"go.pennock.tech/tabular/length"
)

type shortTall struct{}

func (shortTall) String() string { return "a\nb\nc" }
func (shortTall) Height() int    { return 1 }

type wide struct{ s string; w int }

func (x wide) String() string         { return x.s }
func (x wide) TerminalCellWidth() int { return x.w }

func TestD04(t *testing.T) {
	tb := tabular.New()
	tb.AddRowItems(shortTall{})
	defer func() {
		if r := recover(); r != nil {
			t.Errorf("texttable.Render panicked: %v", r)
		}
	}()
	out, err := Render(tb)
	if err != nil {
		t.Fatal(err)
	}
	if n := strings.Count(out, "\n"); n < 3 {
		t.Errorf("expected at least the declared height in lines, got %q", out)
	}
}

func TestD17(t *testing.T) {
	tb := tabular.New()
	tb.AddRowItems(wide{"\x1b[1mab\x1b[0m", 2}, "x") // text measuring more than its declared 2 cells
	tb.AddRowItems("abcd", "y")
	out, err := Render(tb)
	if err != nil {
		t.Fatal(err)
	}
	lines := strings.Split(strings.TrimRight(out, "\n"), "\n")
	// the declared-width cell must be padded as 2 wide in a 4-wide column: 2 spaces of padding follow it
	if !strings.Contains(lines[1], "\x1b[1mab\x1b[0m  ") {
		t.Errorf("declared width not used for layout: %q (measured %d)", lines[1], length.StringCells(lines[1]))
	}
}
