package texttable

// D9 (C10): texttable.Wrap registers its measuring callback with the table it is given as owner; when
// that table is itself a renderer wrapper (csv.New(), or a TextTable around a TextTable) the core
// table refuses the registration (unknown owner type), the error is discarded, and every cell renders blank.

import (
	"testing"

	"go.pennock.tech/tabular"
	"go.pennock.tech/tabular/csv"
)

func TestD09(t *testing.T) {
	plain := tabular.New()
	plain.AddRowItems("hello")
	want, err := Render(plain)
	if err != nil {
		t.Fatal(err)
	}
	viaCSV := csv.New()
	viaCSV.AddRowItems("hello")
	got, err := Render(viaCSV)
	if err != nil {
		t.Fatal(err)
	}
	if got != want {
		t.Errorf("table created by csv.New() renders differently:\n%s\nwant\n%s", got, want)
	}
}
