package tabular

// D15a (C13): the documented per-cell order ends with the post-cell callbacks of row, column and
// TABLE; (*Row).invokeRenderCallbacks never invokes the table's cell callbacks at
// CB_AT_RENDER_POSTCELL, so a table-level post-cell callback never fires.

import "testing"

type countCb struct{ n *int }

func (c countCb) UpdateProperties(PropertyOwner) error { *c.n++; return nil }

func TestD15a(t *testing.T) {
	tb := New()
	tb.AddRowItems("a", "b")
	n := 0
	if err := tb.RegisterPropertyCallback(tb, CB_AT_RENDER_POSTCELL, CB_ON_CELL, countCb{&n}); err != nil {
		t.Fatal(err)
	}
	tb.InvokeRenderCallbacks()
	if n != 2 {
		t.Errorf("table-level post-cell callback fired %d times for 2 cells, want 2", n)
	}
}
