package markdown

// D6 (C08, C09): a row with zero cells panics in emitRow.
// D7 (C15): the result of the first write of each row ("| ") is ignored, so a writer failing on
//           exactly that call goes unreported and the output is not a prefix of the fault-free one.
// D16 (C08): the all-columns default alignment set on column 0 is ignored.

import (
	"errors"
	"strings"
	"testing"

	"go.pennock.tech/tabular"
	"go.pennock.tech/tabular/properties/align"
)

func TestD06(t *testing.T) {
	tb := tabular.New()
	tb.AddHeaders("h1", "h2")
	tb.AddRowItems()
	defer func() {
		if r := recover(); r != nil {
			t.Errorf("markdown.Render panicked on a zero-cell row: %v", r)
		}
	}()
	out, err := Render(tb)
	if err != nil {
		t.Fatal(err)
	}
	lines := strings.Split(strings.TrimRight(out, "\n"), "\n")
	if len(lines) != 3 || strings.Count(lines[2], "|") != 3 {
		t.Errorf("zero-cell row line: %q", lines)
	}
}

type failNth struct {
	n, calls int
	got      []byte
}

func (f *failNth) Write(p []byte) (int, error) {
	f.calls++
	if f.calls == f.n {
		return 0, errors.New("boom")
	}
	f.got = append(f.got, p...)
	return len(p), nil
}

func TestD07(t *testing.T) {
	tb := tabular.New()
	tb.AddHeaders("h")
	tb.AddRowItems("x")
	want, _ := Render(tb)
	w := &failNth{n: 1}
	err := RenderTo(tb, w)
	if err == nil {
		t.Errorf("RenderTo returned nil although the first Write failed")
	}
	if !strings.HasPrefix(want, string(w.got)) {
		t.Errorf("accepted bytes %q are not a prefix of %q", w.got, want)
	}
}

func TestD16(t *testing.T) {
	tb := tabular.New()
	tb.AddHeaders("a", "b")
	tb.AddRowItems("1", "2")
	tb.Column(0).SetProperty(align.PropertyType, align.Right)
	out, err := Render(tb)
	if err != nil {
		t.Fatal(err)
	}
	lines := strings.Split(out, "\n")
	if !strings.Contains(lines[1], "-:|") {
		t.Errorf("default alignment (column 0 = right) not reflected in the delimiter row: %q", lines[1])
	}
}
