package tabular

// D2 (C02, C09): cells added to a row after it joined the table must count towards NColumns.
// D11 (C11): adding a cell to a separator row is misuse; the error must reach the table's list.
// D12 (C11): an error returned by a row's cell callback at add time must not be lost when the
//            row is still detached (its ErrorContainer is a nil pointer inside a non-nil interface).

import (
	"errors"
	"testing"
)

type failCb struct{ e error }

func (f failCb) UpdateProperties(PropertyOwner) error { return f.e }

func TestD02(t *testing.T) {
	tb := New()
	r := tb.AppendNewRow()
	r.Add(NewCell("x")).Add(NewCell("y"))
	if got := tb.NColumns(); got != 2 {
		t.Errorf("NColumns() = %d after adding 2 cells to an attached row, want 2", got)
	}
	if tb.Column(2) == nil {
		t.Errorf("Column(2) is nil although a row has 2 cells")
	}
}

func TestD11(t *testing.T) {
	tb := New()
	tb.AddRowItems("a")
	tb.AddSeparator()
	tb.AllRows()[1].Add(NewCell("x"))
	if got := tb.Errors(); len(got) != 1 {
		t.Errorf("table error list after adding a cell to a separator: %v, want exactly one error", got)
	}
}

func TestD12(t *testing.T) {
	tb := New()
	boom := errors.New("boom")
	r := NewRow()
	if err := tb.RegisterPropertyCallback(r, CB_AT_ADD, CB_ON_CELL, failCb{boom}); err != nil {
		t.Fatal(err)
	}
	r.Add(NewCell("x"))
	if got := r.Errors(); len(got) != 1 || got[0] != boom {
		t.Errorf("detached row: Errors() = %v, want [boom]", got)
	}
	tb.AddRow(r)
	if got := tb.Errors(); len(got) != 1 || got[0] != boom {
		t.Errorf("table after AddRow: Errors() = %v, want [boom]", got)
	}
}
