package csv

// D5 (C05, C09): a row with zero cells must render as NColumns empty fields; emitRow indexes cells[0]
// after its empty loop and panics.

import (
	"testing"

	"go.pennock.tech/tabular"
)

func TestD05(t *testing.T) {
	tb := tabular.New()
	tb.AddRowItems("x", "y")
	tb.AddRowItems()
	defer func() {
		if r := recover(); r != nil {
			t.Errorf("csv.Render panicked on a zero-cell row: %v", r)
		}
	}()
	out, err := Render(tb)
	if err != nil {
		t.Fatalf("unexpected error %v", err)
	}
	if want := "\"x\",\"y\"\n\"\",\"\"\n"; out != want {
		t.Errorf("got %q want %q", out, want)
	}
}
