package auto

// Bounded run for C10 (nesting of wrappers is outside the deductive claim: renderer contracts are proved for a
// wrapper directly around a core table). Every creation path x every nesting of up to two further wrappers x
// every target format must give byte-identical output, Render must equal what RenderTo writes, and the
// package-level functions, the wrapper methods and auto must agree.

import (
	"bytes"
	"testing"

	"go.pennock.tech/tabular"
	"go.pennock.tech/tabular/csv"
	"go.pennock.tech/tabular/html"
	"go.pennock.tech/tabular/json"
	"go.pennock.tech/tabular/markdown"
	"go.pennock.tech/tabular/texttable"
)

func searchFill(t tabular.Table) tabular.Table {
	t.AddHeaders("k1", "k2")
	t.AddRowItems("a", "bb")
	t.AddSeparator()
	t.AddRowItems("c\nd", "e|f")
	return t
}

func TestSearchNesting(t *testing.T) {
	bad := 0
	fail := func(format string, a ...interface{}) {
		if bad < 6 {
			t.Errorf(format, a...)
		}
		bad++
	}
	creators := map[string]func() tabular.Table{
		"tabular.New":   func() tabular.Table { return tabular.New() },
		"csv.New":       func() tabular.Table { return csv.New() },
		"html.New":      func() tabular.Table { return html.New() },
		"json.New":      func() tabular.Table { return json.New() },
		"markdown.New":  func() tabular.Table { return markdown.New() },
		"texttable.New": func() tabular.Table { return texttable.New() },
		"auto csv":      func() tabular.Table { return New("csv") },
		"auto utf8":     func() tabular.Table { return New("utf8-light") },
	}
	wrappers := map[string]func(tabular.Table) tabular.Table{
		"none":      func(x tabular.Table) tabular.Table { return x },
		"csv":       func(x tabular.Table) tabular.Table { return csv.Wrap(x) },
		"html":      func(x tabular.Table) tabular.Table { return html.Wrap(x) },
		"json":      func(x tabular.Table) tabular.Table { return json.Wrap(x) },
		"markdown":  func(x tabular.Table) tabular.Table { return markdown.Wrap(x) },
		"texttable": func(x tabular.Table) tabular.Table { return texttable.Wrap(x) },
	}
	styles := []string{"csv", "html", "json", "markdown", "texttable", "ascii-simple", "texttable.utf8-double"}
	for _, style := range styles {
		ref, err := Render(searchFill(tabular.New()), style)
		if err != nil {
			fail("style %s: reference render failed: %v", style, err)
			continue
		}
		for cn, mk := range creators {
			for w1n, w1 := range wrappers {
				for w2n, w2 := range wrappers {
					tb := w2(w1(searchFill(mk())))
					got, err := Render(tb, style)
					if err != nil || got != ref {
						fail("failing configuration: table created by %s, wrapped in %s then %s, rendered as %s:\n%q (err %v)\nthe core table alone renders\n%q", cn, w1n, w2n, style, got, err, ref)
					}
					var b bytes.Buffer
					if err := RenderTo(w2(w1(searchFill(mk()))), &b, style); err != nil || b.String() != ref {
						fail("failing configuration: %s / %s / %s as %s: RenderTo wrote %q (err %v), Render returns %q", cn, w1n, w2n, style, b.String(), err, ref)
					}
				}
			}
		}
	}
	// package-level functions and wrapper methods agree with auto
	type pair struct {
		name string
		pkg  func(tabular.Table) (string, error)
		meth func(tabular.Table) (string, error)
		auto string
	}
	for _, p := range []pair{
		{"csv", csv.Render, func(x tabular.Table) (string, error) { return csv.Wrap(x).Render() }, "csv"},
		{"json", json.Render, func(x tabular.Table) (string, error) { return json.Wrap(x).Render() }, "json"},
		{"markdown", markdown.Render, func(x tabular.Table) (string, error) { return markdown.Wrap(x).Render() }, "markdown"},
		{"texttable", texttable.Render, func(x tabular.Table) (string, error) { return texttable.Wrap(x).Render() }, "texttable"},
		{"html", func(x tabular.Table) (string, error) { return html.Wrap(x).Render() }, func(x tabular.Table) (string, error) { return html.Wrap(x).Render() }, "html"},
	} {
		a, ea := p.pkg(searchFill(tabular.New()))
		b, eb := p.meth(searchFill(tabular.New()))
		c, ec := Render(searchFill(tabular.New()), p.auto)
		if ea != nil || eb != nil || ec != nil || a != b || b != c {
			fail("failing configuration: %s: package-level %q (%v), method %q (%v), auto %q (%v)", p.name, a, ea, b, eb, c, ec)
		}
	}
}

// Bounded run for C14 (equality of the bytes of successive renders is relational and outside the deductive
// claim): interleaved renders in all formats give the same bytes as the first time and leave the observable
// state of the table unchanged.
func TestSearchRepeat(t *testing.T) {
	bad := 0
	fail := func(format string, a ...interface{}) {
		if bad < 6 {
			t.Errorf(format, a...)
		}
		bad++
	}
	styles := []string{"csv", "utf8-heavy", "markdown", "html", "json", "ascii-simple", "none"}
	tb := searchFill(tabular.New())
	snapshot := func() string {
		var b bytes.Buffer
		b.WriteString(string(rune('0'+tb.NRows())) + string(rune('0'+tb.NColumns())))
		for r := 1; r <= tb.NRows(); r++ {
			for c := 1; c <= tb.NColumns(); c++ {
				if cell, err := tb.CellAt(tabular.CellLocation{Row: r, Column: c}); err == nil {
					b.WriteString(cell.String() + "\x00")
					loc := cell.Location()
					if loc.Row != r || loc.Column != c {
						b.WriteString("LOCATION CHANGED")
					}
				}
			}
		}
		for _, e := range tb.Errors() {
			b.WriteString(e.Error())
		}
		return b.String()
	}
	before := snapshot()
	first := map[string]string{}
	for round := 0; round < 4; round++ {
		for i := range styles {
			style := styles[(i*(round+1))%len(styles)]
			out, err := Render(tb, style)
			if err != nil {
				fail("failing history: render %d as %s: %v", round, style, err)
				continue
			}
			if prev, seen := first[style]; seen && prev != out {
				fail("failing history: rendering as %s in round %d gives\n%q\nbut gave\n%q\nthe first time", style, round, out, prev)
			}
			first[style] = out
			if now := snapshot(); now != before {
				fail("failing history: after rendering as %s (round %d) the table's observable state changed:\n%q\nwas\n%q", style, round, now, before)
			}
		}
	}
}
