package markdown

// Counterexample search (rules as in /verif/replay/length_search_test.go): the Markdown renderer on small
// tables against the structure of C08: header line, delimiter line, one line per non-separator row, each with
// exactly columns+1 unescaped pipes; delimiter cells of at least three dashes with the colon markers of the
// effective alignment; each cell, trimmed and entity-decoded, equals the trimmed text; refusals.

import (
	"html"
	"strings"
	"testing"

	"go.pennock.tech/tabular"
	"go.pennock.tech/tabular/properties/align"
)

func TestSearchMarkdownRender(t *testing.T) {
	bad := 0
	fail := func(format string, a ...interface{}) {
		if bad < 5 {
			t.Errorf(format, a...)
		}
		bad++
	}
	grids := [][][]string{{}, {{"a", "b"}}, {{"a|b", "<x>"}, {"l1\nl2"}, {}}, {{"wide cell text", " sp "}, {"x", "\n"}}}
	aligns := []interface{}{nil, align.Left, align.Right, align.Center}
	for gi, g := range grids {
		for _, sep := range []bool{false, true} {
			for _, a0 := range aligns {
				for _, a2 := range aligns {
					tb := New()
					tb.AddHeaders("h|1", "h2")
					nonsep := 0
					var texts [][]string
					texts = append(texts, []string{"h|1", "h2"})
					for i, r := range g {
						if sep && i == 1 {
							tb.AddSeparator()
						}
						row := tabular.NewRowWithCapacity(len(r))
						for _, c := range r {
							row.Add(tabular.NewCell(c))
						}
						tb.AddRow(row)
						texts = append(texts, r)
						nonsep++
					}
					if a0 != nil {
						tb.Column(0).SetProperty(align.PropertyType, a0)
					}
					if a2 != nil {
						tb.Column(2).SetProperty(align.PropertyType, a2)
					}
					out, err := tb.Render()
					if err != nil {
						fail("failing table grid %d: Render error %v", gi, err)
						continue
					}
					lines := strings.Split(strings.TrimSuffix(out, "\n"), "\n")
					if len(lines) != 2+nonsep {
						fail("failing table grid %d %q separator %v: %d lines, want header + delimiter + %d rows:\n%s", gi, g, sep, len(lines), nonsep, out)
						continue
					}
					for li, l := range lines {
						if n := strings.Count(l, "|"); n != 3 {
							fail("failing table grid %d %q: line %d has %d pipes, want 3: %q", gi, g, li, n, l)
						}
					}
					cellsOf := func(l string) []string {
						p := strings.Split(l, "|")
						if len(p) < 3 {
							return nil
						}
						return p[1 : len(p)-1]
					}
					eff := []interface{}{a0, a0}
					if a2 != nil {
						eff[1] = a2
					}
					for c, d := range cellsOf(lines[1]) {
						core := strings.Trim(d, " :")
						if len(core) < 3 || strings.Trim(core, "-") != "" {
							fail("failing table grid %d: delimiter cell %q has fewer than three dashes", gi, d)
						}
						left, right := strings.HasPrefix(strings.TrimSpace(d), ":"), strings.HasSuffix(strings.TrimSpace(d), ":")
						wantL, wantR := eff[c] == align.Center, eff[c] == align.Right || eff[c] == align.Center
						if left != wantL || right != wantR {
							fail("failing table grid %d alignments column0=%v column2=%v: delimiter cell %d is %q", gi, a0, a2, c+1, d)
						}
					}
					rowLines := append([]string{lines[0]}, lines[2:]...)
					for ri, l := range rowLines {
						cs := cellsOf(l)
						for c := 0; c < 2; c++ {
							want := ""
							if c < len(texts[ri]) {
								want = strings.TrimSpace(texts[ri][c])
							}
							if c >= len(cs) {
								continue
							}
							got := strings.TrimSpace(html.UnescapeString(strings.TrimSpace(cs[c])))
							if got != want {
								fail("failing table grid %d %q: row %d cell %d reads back %q, text is %q (line %q)", gi, g, ri, c+1, got, want, l)
							}
							if strings.ContainsAny(cs[c], "<>\"") {
								fail("failing table grid %d: raw markup character in cell %q", gi, cs[c])
							}
						}
					}
				}
			}
		}
	}
	if out, err := New().Render(); err == nil || out != "" {
		fail("failing table (no columns): Render = %q, %v", out, err)
	}
	nb := New()
	nb.AddRowItems("a")
	if out, err := nb.Render(); err == nil || out != "" {
		fail("failing table (no headers): Render = %q, %v", out, err)
	}
}
