package markdown

// Counterexample search (rules as in /verif/replay/length_search_test.go): mdCellEscape against the contract
// (HTML-escape, then "|" and line feed as numeric entities) on strings over a markup-hostile alphabet, length <= 5.

import (
	"html"
	"strings"
	"testing"
)

func TestSearchMarkdownEscape(t *testing.T) {
	alphabet := []string{"a", "|", "\n", "<", "&", "\"", " "}
	mt := &MarkdownTable{}
	bad := 0
	var rec func(prefix string, n int)
	rec = func(prefix string, n int) {
		want := strings.Replace(strings.Replace(html.EscapeString(prefix), "|", "&#x7c;", -1), "\n", "&#x0a;", -1)
		got := mt.mdCellEscape(prefix)
		if got != want || strings.ContainsAny(got, "|\n<>\"") {
			if bad < 5 {
				t.Errorf("failing input %q: mdCellEscape = %q, contract says %q (no raw pipe, line feed, angle bracket or quote)", prefix, got, want)
			}
			bad++
		}
		if n == 0 {
			return
		}
		for _, a := range alphabet {
			rec(prefix+a, n-1)
		}
	}
	rec("", 5)
}
