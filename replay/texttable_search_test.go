package texttable

// Counterexample search (rules as in /verif/replay/length_search_test.go): the text renderer with the
// ascii-simple decoration on small ASCII grids (ragged, multi-line, empty cells, separators, with and without
// headers, every alignment on column 0 and on each column) against a small reference layout that follows the
// statements of C03/C04: column width = widest line of any cell in it, one space either side, content lines per
// text line of the tallest cell (at least one), padding by effective alignment, rules top / under the header /
// per separator / bottom.

import (
	"strings"
	"testing"

	"go.pennock.tech/tabular"
	"go.pennock.tech/tabular/properties/align"
	"go.pennock.tech/tabular/texttable/decoration"
)

// searchDistinct: every glyph a different letter, so that a swapped corner or crossing shows
var searchDistinct = decoration.Decoration{
	HOuter: "a", HRule: "b", VHeader: "c", VBodyBorder: "d", VBodyInner: "e",
	TopLeft: "f", TopRight: "g", BottomLeft: "h", BottomRight: "i", LeftBodyRule: "j", RightBodyRule: "k",
	HTopDown: "l", BTopDown: "m", BBottomUp: "n", HBCross: "o", HBLeft: "p", HBRight: "q", CrossPiece: "r",
}

func searchLines(s string) []string {
	if s == "" {
		return nil
	}
	p := strings.Split(s, "\n")
	if p[len(p)-1] == "" {
		p = p[:len(p)-1]
	}
	return p
}

func searchPad(s string, w int, a interface{}) string {
	pad := w - len(s)
	if pad < 0 {
		pad = 0
	}
	switch a {
	case align.Right:
		return strings.Repeat(" ", pad) + s
	case align.Center:
		return strings.Repeat(" ", pad/2) + s + strings.Repeat(" ", pad-pad/2)
	}
	return s + strings.Repeat(" ", pad)
}

func TestSearchTextTable(t *testing.T) {
	bad := 0
	fail := func(format string, a ...interface{}) {
		if bad < 4 {
			t.Errorf(format, a...)
		}
		bad++
	}
	grids := [][][]string{
		{{"a"}}, {{"a", "bb"}, {"ccc"}}, {{"l1\nl22", "x"}, {"", "yy\n"}}, {{"a", "b", "c"}, {}, {"dddd"}},
	}
	aligns := []interface{}{nil, align.Left, align.Right, align.Center}
	for _, distinct := range []bool{false, true} {
		for gi, g := range grids {
			for _, hdr := range [][]string{nil, {"H"}, {"H1", "H2\nh"}} {
				for _, sepAt := range []int{-1, 1} {
					for _, a0 := range aligns {
						for _, a1 := range aligns {
							tb := New()
							tb.SetDecorationNamed("ascii-simple")
							d := decoration.ASCIIBoxSimple()
							if distinct {
								if a0 != nil || a1 != nil {
									continue
								}
								d = searchDistinct
								tb.SetDecoration(d)
							}
							var all [][]string
							if hdr != nil {
								items := make([]interface{}, len(hdr))
								for i := range hdr {
									items[i] = hdr[i]
								}
								tb.AddHeaders(items...)
							}
							for i, r := range g {
								if i == sepAt {
									tb.AddSeparator()
								}
								row := tabular.NewRowWithCapacity(len(r))
								for _, c := range r {
									row.Add(tabular.NewCell(c))
								}
								tb.AddRow(row)
							}
							ncols := tb.NColumns()
							if ncols == 0 {
								continue
							}
							if a0 != nil {
								tb.Column(0).SetProperty(align.PropertyType, a0)
							}
							if a1 != nil {
								tb.Column(1).SetProperty(align.PropertyType, a1)
							}
							eff := make([]interface{}, ncols)
							for c := range eff {
								eff[c] = a0
							}
							if a1 != nil {
								eff[0] = a1
							}
							all = append(all, hdr)
							all = append(all, g...)
							w := make([]int, ncols)
							for _, r := range all {
								for c, s := range r {
									for _, l := range searchLines(s) {
										if c < ncols && len(l) > w[c] {
											w[c] = len(l)
										}
									}
								}
							}
							ruleOf := func(left, horiz, cross, right string) string {
								s := left
								for c := 0; c < ncols; c++ {
									s += strings.Repeat(horiz, w[c]+2)
									if c < ncols-1 {
										s += cross
									}
								}
								return s + right + "\n"
							}
							content := func(r []string, border, inner string) string {
								n := 1
								for c, s := range r {
									if c < ncols && len(searchLines(s)) > n {
										n = len(searchLines(s))
									}
								}
								out := ""
								for l := 0; l < n; l++ {
									out += border
									for c := 0; c < ncols; c++ {
										cell := ""
										if c < len(r) {
											if ls := searchLines(r[c]); l < len(ls) {
												cell = ls[l]
											}
										}
										out += " " + searchPad(cell, w[c], eff[c]) + " "
										if c < ncols-1 {
											out += inner
										} else {
											out += border
										}
									}
									out += "\n"
								}
								return out
							}
							want := ""
							if hdr != nil {
								want += ruleOf(d.TopLeft, d.HOuter, d.HTopDown, d.TopRight)
								want += content(hdr, d.VHeader, d.VHeader) + ruleOf(d.HBLeft, d.HOuter, d.HBCross, d.HBRight)
							} else {
								want += ruleOf(d.TopLeft, d.HOuter, d.BTopDown, d.TopRight)
							}
							for i, r := range g {
								if i == sepAt {
									want += ruleOf(d.LeftBodyRule, d.HRule, d.CrossPiece, d.RightBodyRule)
								}
								want += content(r, d.VBodyBorder, d.VBodyInner)
							}
							want += ruleOf(d.BottomLeft, d.HOuter, d.BBottomUp, d.BottomRight)
							got, err := tb.Render()
							if err != nil || got != want {
								fail("failing table (distinct glyphs: %v): grid %d %q header %q separator at %d, column-0 alignment %v, column-1 alignment %v:\nRender =\n%s(err %v)\nthe layout of C03/C04 is\n%s", distinct, gi, g, hdr, sepAt, a0, a1, got, err, want)
							}
						}
					}
				}
			}
		}
	}
}
