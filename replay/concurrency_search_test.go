package auto

// Bounded run for C16/C17 (schedules are outside the deductive claim, which is "no shared mutable state except
// the lock-guarded registry"): goroutines that each own their tables build and render them in every format while
// others register, look up and list decoration names; every output must equal the sequential one. Run with -race.

import (
	"fmt"
	"sort"
	"sync"
	"testing"

	"go.pennock.tech/tabular"
	"go.pennock.tech/tabular/texttable/decoration"
)

func concFill(t tabular.Table) tabular.Table {
	t.AddHeaders("k1", "k2")
	t.AddRowItems("a", "bb")
	t.AddSeparator()
	t.AddRowItems("c\nd", "e|f")
	return t
}

func TestSearchConcurrency(t *testing.T) {
	styles := []string{"csv", "html", "json", "markdown", "texttable", "ascii-simple", "utf8-double", "none"}
	want := map[string]string{}
	for _, s := range styles {
		out, err := Render(concFill(tabular.New()), s)
		if err != nil {
			t.Fatalf("sequential render as %s: %v", s, err)
		}
		want[s] = out
	}
	var wg sync.WaitGroup
	errs := make(chan string, 1000)
	for g := 0; g < 8; g++ {
		wg.Add(1)
		go func(g int) {
			defer wg.Done()
			for i := 0; i < 30; i++ {
				s := styles[(g+i)%len(styles)]
				out, err := Render(concFill(tabular.New()), s)
				if err != nil || out != want[s] {
					errs <- fmt.Sprintf("failing schedule: goroutine %d render %d as %s gave %q (err %v), alone it gives %q", g, i, s, out, err, want[s])
				}
			}
		}(g)
	}
	for g := 0; g < 3; g++ {
		wg.Add(1)
		go func(g int) {
			defer wg.Done()
			for i := 0; i < 200; i++ {
				name := fmt.Sprintf("search-%d-%d", g, i%7)
				decoration.RegisterDecorationName(name, decoration.ASCIIBoxSimple())
				if decoration.Named(name) == decoration.EmptyDecoration {
					errs <- "failing schedule: a name just registered is not found: " + name
				}
				l := decoration.RegisteredDecorationNames()
				if !sort.StringsAreSorted(l) {
					errs <- "failing schedule: listing not sorted"
				}
				for k := 1; k < len(l); k++ {
					if l[k] == l[k-1] {
						errs <- "failing schedule: duplicate in listing: " + l[k]
					}
				}
				_ = ListStyles()
			}
		}(g)
	}
	wg.Wait()
	close(errs)
	n := 0
	for e := range errs {
		if n < 5 {
			t.Error(e)
		}
		n++
	}
}
