package json

// Counterexample search (rules as in /verif/replay/length_search_test.go): the JSON renderer on small tables;
// the output must parse with encoding/json as an array with one object per non-separator row mapping header
// text to the cell item (C07), empty cells omitted exactly in skipable columns, and broken headers refused.

import (
	stdjson "encoding/json"
	"reflect"
	"testing"

	"go.pennock.tech/tabular"
	"go.pennock.tech/tabular/properties"
)

func TestSearchJSONRender(t *testing.T) {
	bad := 0
	fail := func(format string, a ...interface{}) {
		if bad < 5 {
			t.Errorf(format, a...)
		}
		bad++
	}
	grids := [][][]interface{}{
		{}, {{"a", "b"}}, {{"a"}, {"", "x"}}, {{"q\"uote", 7}, {}, {true, ""}},
	}
	type skip struct{ def, col2 interface{} }
	skips := []skip{{nil, nil}, {true, nil}, {true, false}, {false, true}, {nil, true}}
	for gi, g := range grids {
		for _, sepPos := range []string{"none", "first", "middle", "last"} {
			for _, sk := range skips {
				tb := New()
				tb.AddHeaders("k1", "k 2")
				var want []map[string]interface{}
				if sepPos == "first" {
					tb.AddSeparator()
				}
				for i, r := range g {
					if sepPos == "middle" && i == 1 {
						tb.AddSeparator()
					}
					row := tabular.NewRowWithCapacity(len(r))
					for _, c := range r {
						row.Add(tabular.NewCell(c))
					}
					tb.AddRow(row)
					obj := map[string]interface{}{}
					for c, v := range r {
						skipable := false
						if b, ok := sk.def.(bool); ok {
							skipable = b
						}
						if c == 1 {
							if b, ok := sk.col2.(bool); ok {
								skipable = b
							}
						}
						if s, isStr := v.(string); isStr && s == "" && skipable {
							continue
						}
						key := []string{"k1", "k 2"}[c]
						switch x := v.(type) {
						case int:
							obj[key] = float64(x)
						default:
							obj[key] = v
						}
					}
					want = append(want, obj)
				}
				if sepPos == "last" {
					tb.AddSeparator()
					tb.AddSeparator()
				}
				if sk.def != nil {
					tb.Column(0).SetProperty(properties.Skipable, sk.def)
				}
				if sk.col2 != nil {
					tb.Column(2).SetProperty(properties.Skipable, sk.col2)
				}
				out, err := tb.Render()
				if err != nil {
					fail("failing table grid %d separators %s skipable %v: Render error %v", gi, sepPos, sk, err)
					continue
				}
				var got []map[string]interface{}
				if e := stdjson.Unmarshal([]byte(out), &got); e != nil {
					fail("failing table grid %d %v separators %s skipable %v: output is not valid JSON (%v):\n%s", gi, g, sepPos, sk, e, out)
					continue
				}
				if len(got) != len(want) {
					fail("failing table grid %d separators %s: %d objects, want %d:\n%s", gi, sepPos, len(got), len(want), out)
					continue
				}
				for i := range want {
					if !reflect.DeepEqual(got[i], want[i]) {
						fail("failing table grid %d %v separators %s skipable %+v: object %d = %v, contract says %v", gi, g, sepPos, sk, i, got[i], want[i])
					}
				}
			}
		}
	}
	// refused tables
	for name, build := range map[string]func() *JSONTable{
		"no headers":        func() *JSONTable { tb := New(); tb.AddRowItems("a"); return tb },
		"too few headers":   func() *JSONTable { tb := New(); tb.AddHeaders("k"); tb.AddRowItems("a", "b"); return tb },
		"duplicate headers": func() *JSONTable { tb := New(); tb.AddHeaders("k", "k"); tb.AddRowItems("a", "b"); return tb },
		"empty header":      func() *JSONTable { tb := New(); tb.AddHeaders("k", ""); tb.AddRowItems("a", "b"); return tb },
		"no columns":        func() *JSONTable { return New() },
		"non-boolean skipable": func() *JSONTable {
			tb := New()
			tb.AddHeaders("k")
			tb.AddRowItems("a")
			tb.Column(1).SetProperty(properties.Skipable, "yes")
			return tb
		},
	} {
		if out, err := build().Render(); err == nil || out != "" {
			fail("failing table (%s): Render = %q, %v; want an error and no text", name, out, err)
		}
	}
}
