package csv

// Counterexample search (see /verif/replay/length_search_test.go for the rules): csvEscape against the quoting
// contract on every string over {a " , \n \r} of length <= 6.

import (
	"strings"
	"testing"
)

func TestSearchCSVEscape(t *testing.T) {
	alphabet := []string{"a", "\"", ",", "\n", "\r"}
	bad := 0
	var rec func(prefix string, n int)
	rec = func(prefix string, n int) {
		want := "\"" + strings.Replace(prefix, "\"", "\"\"", -1) + "\""
		if got := (&CSVTable{}).csvEscape(prefix); got != want {
			if bad < 5 {
				t.Errorf("failing input %q: csvEscape = %q, contract says %q", prefix, got, want)
			}
			bad++
		}
		if n == 0 {
			return
		}
		for _, a := range alphabet {
			rec(prefix+a, n-1)
		}
	}
	rec("", 6)
}
