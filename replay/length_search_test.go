package length

// Counterexample search used by /verif/check ONLY when an obligation of this package has failed: it runs the
// real functions on every string over a small hostile alphabet (bound: length <= 5 symbols) and compares with
// an executable reading of the contracts. A failing input found here is a concrete replay on the real code;
// finding none changes nothing (the violation stands, with the words no-failing-input-found).

import (
	"strings"
	"testing"
	"unicode/utf8"
)

var searchAlphabet = []string{"a", "\n", "é", "世", "\t", "\x1b", "é"}

func searchStrings(max int, f func(string)) {
	var rec func(prefix string, n int)
	rec = func(prefix string, n int) {
		f(prefix)
		if n == 0 {
			return
		}
		for _, a := range searchAlphabet {
			rec(prefix+a, n-1)
		}
	}
	rec("", max)
}

func refLines(s string) []string {
	parts := strings.Split(s, "\n")
	if parts[len(parts)-1] == "" {
		parts = parts[:len(parts)-1]
	}
	return parts
}

func TestSearchLength(t *testing.T) {
	bad := 0
	fail := func(format string, a ...interface{}) {
		if bad < 5 {
			t.Errorf(format, a...)
		}
		bad++
	}
	searchStrings(5, func(s string) {
		want := refLines(s)
		got := Lines(s)
		if len(got) != len(want) {
			fail("failing input %q: Lines returns %d lines, contract says %d", s, len(got), len(want))
		} else {
			for i := range want {
				if got[i] != want[i] {
					fail("failing input %q: Lines()[%d] = %q, contract says %q", s, i, got[i], want[i])
				}
			}
		}
		mb, mr, mc := 0, 0, 0
		for _, l := range want {
			if len(l) > mb {
				mb = len(l)
			}
			if r := utf8.RuneCountInString(l); r > mr {
				mr = r
			}
			if c := StringCells(l); c > mc {
				mc = c
			}
		}
		if g := LongestLineBytes(s); g != mb {
			fail("failing input %q: LongestLineBytes = %d, maximum over its lines is %d", s, g, mb)
		}
		if g := LongestLineRunes(s); g != mr {
			fail("failing input %q: LongestLineRunes = %d, maximum over its lines is %d", s, g, mr)
		}
		if g := LongestLineCells(s); g != mc {
			fail("failing input %q: LongestLineCells = %d, maximum over its lines is %d", s, g, mc)
		}
		if StringBytes(s) != len(s) {
			fail("failing input %q: StringBytes = %d, len = %d", s, StringBytes(s), len(s))
		}
		if r := StringRunes(s); r != utf8.RuneCountInString(s) || r > len(s) {
			fail("failing input %q: StringRunes = %d", s, r)
		}
		if c := StringCells(s); c < 0 || c > 2*utf8.RuneCountInString(s) {
			fail("failing input %q: StringCells = %d outside [0, 2*runes]", s, c)
		}
	})
}
