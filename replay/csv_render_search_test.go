package csv

// Counterexample search (rules as in /verif/replay/length_search_test.go): the csv renderer on small tables
// against an executable reading of C05 (all fields quoted, quotes doubled, short rows padded with empty fields,
// header first, separators skipped, no columns => error) and of C15 (a failing writer surfaces as an error).

import (
	"errors"
	"strings"
	"testing"

	"go.pennock.tech/tabular"
)

type searchFailWriter struct {
	okWrites int
	buf      strings.Builder
}

func (w *searchFailWriter) Write(p []byte) (int, error) {
	if w.okWrites <= 0 {
		return 0, errors.New("writer failed")
	}
	w.okWrites--
	return w.buf.Write(p)
}

func TestSearchCSVRender(t *testing.T) {
	bad := 0
	fail := func(format string, a ...interface{}) {
		if bad < 6 {
			t.Errorf(format, a...)
		}
		bad++
	}
	q := func(s string) string { return "\"" + strings.Replace(s, "\"", "\"\"", -1) + "\"" }
	texts := []string{"", "a", "x\"y", "1,2", "l1\nl2", "\""}
	shapes := [][][]string{
		{{}}, {{"a"}}, {{"a", "b"}, {"c"}}, {{}, {"a", "b", "c"}}, {{"x\"y", "1,2"}, {"l1\nl2", "\""}, {}},
	}
	for _, withHeader := range []bool{false, true} {
		for _, sepAt := range []int{-1, 0, 1} {
			for _, rows := range shapes {
				tb := New()
				var want []([]string)
				ncols := 0
				if withHeader {
					tb.AddHeaders("h\"1", "h2")
					want = append(want, []string{"h\"1", "h2"})
					ncols = 2
				}
				for i, r := range rows {
					if i == sepAt {
						tb.AddSeparator()
					}
					row := tabular.NewRowWithCapacity(len(r))
					for _, c := range r {
						row.Add(tabular.NewCell(c))
					}
					tb.AddRow(row)
					want = append(want, r)
					if len(r) > ncols {
						ncols = len(r)
					}
				}
				_ = texts
				out, err := tb.Render()
				if ncols == 0 {
					if err == nil || out != "" {
						fail("failing table (no columns, %d rows): Render = %q, %v; want an error and no text", len(rows), out, err)
					}
					continue
				}
				var b strings.Builder
				for _, r := range want {
					for c := 0; c < ncols; c++ {
						if c > 0 {
							b.WriteString(",")
						}
						if c < len(r) {
							b.WriteString(q(r[c]))
						} else {
							b.WriteString(q(""))
						}
					}
					b.WriteString("\n")
				}
				if err != nil || out != b.String() {
					fail("failing table header=%v separator at %d rows %q: Render = %q, %v; contract says %q", withHeader, sepAt, rows, out, err, b.String())
				}
				for k := 0; k < 6; k++ {
					w := &searchFailWriter{okWrites: k}
					err := tb.RenderTo(w)
					if err == nil && w.buf.String() != b.String() {
						fail("failing table %q with a writer failing at write %d: RenderTo returned nil but wrote %q", rows, k+1, w.buf.String())
					}
					if !strings.HasPrefix(b.String(), w.buf.String()) {
						fail("failing table %q with a writer failing at write %d: accepted bytes %q are not a prefix of %q", rows, k+1, w.buf.String(), b.String())
					}
				}
			}
		}
	}
}
