package decoration

// Counterexample search (rules as in /verif/replay/length_search_test.go): WithinWidthAligned against the
// `aligned` spec function for widths -1..4, available 0..7 and the four alignment values.

import (
	"strings"
	"testing"

	"go.pennock.tech/tabular/properties/align"
)

func refAligned(s string, w, available int, a align.Alignment) string {
	if w < 0 {
		return strings.Repeat(" ", available)
	}
	pad := available - w
	if pad < 0 {
		pad = 0
	}
	switch a {
	case nil, align.Left:
		return s + strings.Repeat(" ", pad)
	case align.Right:
		return strings.Repeat(" ", pad) + s
	default:
		return strings.Repeat(" ", pad/2) + s + strings.Repeat(" ", pad-pad/2)
	}
}

func TestSearchWithinWidthAligned(t *testing.T) {
	bad := 0
	names := []string{"unset", "left", "right", "centre"}
	for ai, a := range []align.Alignment{nil, align.Left, align.Right, align.Center} {
		for w := -1; w <= 4; w++ {
			for available := 0; available <= 7; available++ {
				s := ""
				if w > 0 {
					s = strings.Repeat("x", w)
				}
				ws := WidthString{S: s, W: w}
				want := refAligned(s, w, available, a)
				if got := ws.WithinWidthAligned(available, a); got != want {
					if bad < 5 {
						t.Errorf("failing input WidthString{S:%q,W:%d}.WithinWidthAligned(%d, %s) = %q, contract says %q", s, w, available, names[ai], got, want)
					}
					bad++
				}
			}
		}
	}
}
