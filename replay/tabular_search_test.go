package tabular

// Counterexample search (rules as in /verif/replay/length_search_test.go) for the core package: run ONLY when an
// obligation of this package has failed. It exercises the real functions on a small domain of items and build
// histories and compares with an executable reading of the contracts of C01 (cell text), C11 (error lists),
// C02 (shape after building) and C13 (callbacks run once, in order).

import (
	"errors"
	"fmt"
	"strings"
	"testing"
)

type searchStringer struct{ s string }

func (x searchStringer) String() string { return x.s }

type searchGoStringer struct{ s string }

func (x searchGoStringer) GoString() string { return x.s }

type searchBoth struct{ a, b string }

func (x searchBoth) String() string   { return x.a }
func (x searchBoth) GoString() string { return x.b }

type searchSized struct {
	s    string
	w, h int
}

func (x searchSized) String() string         { return x.s }
func (x searchSized) TerminalCellWidth() int { return x.w }
func (x searchSized) Height() int            { return x.h }

type searchMutable struct{ s *string }

func (x searchMutable) String() string { return *x.s }

func refText(item interface{}) string {
	switch o := item.(type) {
	case nil:
		return ""
	case Cell:
		return o.String()
	case string:
		return o
	case rune:
		return string(o)
	case Stringer:
		return o.String()
	case GoStringer:
		return o.GoString()
	case error:
		return o.Error()
	default:
		return fmt.Sprintf("%v", o)
	}
}

func TestSearchTabular(t *testing.T) {
	bad := 0
	fail := func(format string, a ...interface{}) {
		if bad < 6 {
			t.Errorf(format, a...)
		}
		bad++
	}
	texts := []string{"", "a", "a\nbc", "x\n", "\n", "世界", "a\n\nb"}
	var items []interface{}
	items = append(items, nil, 'x', rune(0x4e16), 42, 1.5, true, errors.New("boom"), errors.New(""))
	for _, s := range texts {
		items = append(items, s, searchStringer{s}, searchGoStringer{s}, searchBoth{s, "go:" + s}, NewCell(s), searchSized{s, 3, 2}, searchSized{s, -1, 0})
	}
	// C01: text, emptiness, item round trip
	for _, it := range items {
		c := NewCell(it)
		want := refText(it)
		if got := c.String(); got != want {
			fail("failing input NewCell(%#v): String() = %q, contract says %q", it, got, want)
		}
		if c.Empty() != (want == "") {
			fail("failing input NewCell(%#v): Empty() = %v but the text is %q", it, c.Empty(), want)
		}
		if _, isCell := it.(Cell); !isCell && fmt.Sprintf("%#v", c.Item()) != fmt.Sprintf("%#v", it) {
			fail("failing input NewCell(%#v): Item() = %#v", it, c.Item())
		}
		if c.TerminalCellWidth() < 0 || c.Height() < 0 {
			fail("failing input NewCell(%#v): negative size %d x %d", it, c.TerminalCellWidth(), c.Height())
		}
	}
	// C01: Update re-reads a mutated item
	for _, a := range texts {
		for _, b := range texts {
			s := a
			c := NewCell(searchMutable{&s})
			s = b
			before := c.String()
			c.Update()
			if before != a || c.String() != b || c.Empty() != (b == "") {
				fail("failing input: item text %q then mutated to %q: before Update %q, after Update %q, Empty()=%v", a, b, before, c.String(), c.Empty())
			}
		}
	}
	// C11: error containers
	e1, e2, e3 := errors.New("1"), errors.New("2"), errors.New("3")
	lists := [][]error{nil, {}, {e1}, {nil}, {e1, nil, e2}, {nil, nil}, {e1, e2, e3}}
	for _, pre := range lists {
		for _, add := range lists {
			ec := NewErrorContainer()
			var want []error
			for _, e := range pre {
				ec.AddError(e)
				if e != nil {
					want = append(want, e)
				}
			}
			in := append([]error(nil), add...)
			ec.AddErrorList(in)
			for _, e := range add {
				if e != nil {
					want = append(want, e)
				}
			}
			if len(in) > 0 {
				in[0] = errors.New("caller reuses its slice")
			}
			got := ec.Errors()
			if len(want) == 0 && got != nil {
				fail("failing history AddError%v; AddErrorList%v: Errors() = %v, want nil", pre, add, got)
			}
			if len(got) != len(want) {
				fail("failing history AddError%v; AddErrorList%v: %d errors, want %d", pre, add, len(got), len(want))
				continue
			}
			for i := range want {
				if got[i] != want[i] {
					fail("failing history AddError%v; AddErrorList%v: Errors()[%d] = %v, want %v", pre, add, i, got[i], want[i])
				}
			}
		}
	}
	// C02 / C13: shapes and callbacks over short build histories
	type op struct {
		kind string
		n    int
	}
	var histories [][]op
	kinds := []op{{"row", 0}, {"row", 1}, {"row", 3}, {"sep", 0}, {"hdr", 2}, {"items", 2}, {"grow", 1}}
	for _, a := range kinds {
		histories = append(histories, []op{a})
		for _, b := range kinds {
			histories = append(histories, []op{a, b})
			for _, c := range kinds {
				histories = append(histories, []op{a, b, c})
			}
		}
	}
	for _, h := range histories {
		tb := New()
		calls := []string{}
		tb.RegisterPropertyCallback(tb, CB_AT_ADD, CB_ON_CELL, searchCB{"first", &calls, errors.New("cb")})
		tb.RegisterPropertyCallback(tb, CB_AT_ADD, CB_ON_CELL, searchCB{"second", &calls, nil})
		wantRows, wantCols, wantCells := 0, 0, 0
		var last *Row
		var desc []string
		colCalls := []string{}
		colRegistered, wantColCalls := false, 0
		for _, o := range h {
			if !colRegistered && tb.NColumns() >= 1 {
				if err := tb.RegisterPropertyCallback(tb.Column(1), CB_AT_ADD, CB_ON_CELL, searchCB{"col1", &colCalls, nil}); err != nil {
					fail("failing history %s: registering a cell callback on column 1 failed: %v", strings.Join(desc, ","), err)
				}
				colRegistered = true
			}
			if colRegistered && ((o.kind == "row" && o.n >= 1) || o.kind == "items") {
				wantColCalls++
			}
			desc = append(desc, fmt.Sprintf("%s%d", o.kind, o.n))
			switch o.kind {
			case "row":
				r := NewRowWithCapacity(o.n)
				for i := 0; i < o.n; i++ {
					r.Add(NewCell(i))
				}
				tb.AddRow(r)
				last = r
				wantRows++
				wantCells += o.n
				if o.n > wantCols {
					wantCols = o.n
				}
			case "sep":
				tb.AddSeparator()
				wantRows++
				last = nil
			case "hdr":
				tb.AddHeaders("h1", "h2")
				wantCells += 2
				if 2 > wantCols {
					wantCols = 2
				}
			case "items":
				tb.AddRowItems("a", "b")
				wantRows++
				wantCells += 2
				if 2 > wantCols {
					wantCols = 2
				}
				last = nil
			case "grow":
				if last != nil {
					// a cell added to an attached row: only the row's own cell callbacks are documented to run
					last.Add(NewCell("late"))
					if n := len(last.Cells()); n > wantCols {
						wantCols = n
					}
				}
			}
		}
		hist := strings.Join(desc, ",")
		if tb.NRows() != wantRows {
			fail("failing history %s: NRows() = %d, want %d", hist, tb.NRows(), wantRows)
		}
		if tb.NColumns() != wantCols {
			fail("failing history %s: NColumns() = %d, want %d", hist, tb.NColumns(), wantCols)
		}
		if len(calls) != 2*wantCells {
			fail("failing history %s: %d table-level cell callbacks ran for %d cells (two registered): %v", hist, len(calls), wantCells, calls)
		}
		for i := 0; i+1 < len(calls); i += 2 {
			if calls[i] != "first" || calls[i+1] != "second" {
				fail("failing history %s: callbacks out of order or skipped at %d: %v", hist, i, calls)
				break
			}
		}
		if len(colCalls) != wantColCalls {
			fail("failing history %s: the cell callback of column 1 ran %d times, %d rows with a first cell were added after it was registered", hist, len(colCalls), wantColCalls)
		}
		if got := len(tb.Errors()); got != wantCells {
			fail("failing history %s: %d errors recorded, the failing callback ran for %d cells", hist, got, wantCells)
		}
		for ri, r := range tb.AllRows() {
			for ci := range r.Cells() {
				c, err := tb.CellAt(CellLocation{Row: ri + 1, Column: ci + 1})
				if err != nil || c != &r.Cells()[ci] {
					fail("failing history %s: CellAt(%d,%d) = %p, %v; want the cell itself", hist, ri+1, ci+1, c, err)
				}
			}
		}
	}
}

type searchCB struct {
	name  string
	calls *[]string
	err   error
}

func (s searchCB) UpdateProperties(po PropertyOwner) error {
	*s.calls = append(*s.calls, s.name)
	return s.err
}
