/-
  C05, parse-back step. The contract of `csvEscape` (proved by govc on the real Go code) says the
  field written is `quote s`: an opening quote, every byte of the text in order with each quote doubled,
  a closing quote. This file proves, for the strict RFC 4180 reader `unq` of a quoted field, that reading
  `quote s` followed by anything that does not start with a quote (a comma, a line feed, or the end of
  input) gives back exactly `s` and leaves that remainder: so quoting loses nothing, whatever the text
  contains (commas, CR, LF, quotes).
-/

def esc (c : Char) : List Char := if c = '"' then ['"', '"'] else [c]

def body : List Char → List Char
  | [] => []
  | c :: s => esc c ++ body s

def quote (s : List Char) : List Char := '"' :: (body s ++ ['"'])

/-- strict reader of the inside of a quoted field (after the opening quote): a doubled quote is a
    quote character, a single quote ends the field. -/
def unq : List Char → Option (List Char × List Char)
  | [] => none
  | c :: rest =>
    if c = '"' then
      match rest with
      | d :: rest' =>
        if d = '"' then (unq rest').map (fun p => ('"' :: p.1, p.2))
        else some ([], d :: rest')
      | [] => some ([], [])
    else (unq rest).map (fun p => (c :: p.1, p.2))

def noQuoteAhead : List Char → Prop
  | [] => True
  | d :: _ => d ≠ '"'

theorem unq_body (s rest : List Char) (h : noQuoteAhead rest) :
    unq (body s ++ '"' :: rest) = some (s, rest) := by
  induction s with
  | nil =>
    cases rest with
    | nil => simp [body, unq]
    | cons d r =>
      have hd : d ≠ '"' := h
      simp [body, unq, hd]
  | cons c s ih =>
    by_cases hc : c = '"'
    · subst hc
      simp [body, esc, unq, ih]
    · simp only [body, esc, hc, if_false, List.cons_append, List.nil_append]
      rw [unq.eq_def]
      simp [hc, ih]

/-- reading back a quoted field -/
def readField : List Char → Option (List Char × List Char)
  | '"' :: rest => unq rest
  | _ => none

theorem read_quote (s rest : List Char) (h : noQuoteAhead rest) :
    readField (quote s ++ rest) = some (s, rest) := by
  simp [quote, readField, List.append_assoc]
  exact unq_body s rest h

/-- one record as the renderer writes it: quoted fields separated by commas, then a line feed
    (the renderer always writes at least one field per record: a table without columns is refused) -/
def recordStr : List (List Char) → List Char
  | [] => []
  | [f] => quote f ++ ['\n']
  | f :: g :: fs => quote f ++ ',' :: recordStr (g :: fs)

/-- strict reader of one record; the first argument is fuel (number of fields at most) -/
def readRecord : Nat → List Char → Option (List (List Char) × List Char)
  | 0, _ => none
  | n + 1, inp =>
    match readField inp with
    | none => none
    | some (f, r) =>
      match r with
      | ',' :: r' => (readRecord n r').map (fun p => (f :: p.1, p.2))
      | '\n' :: r' => some ([f], r')
      | _ => none

theorem read_record (fs : List (List Char)) (rest : List Char) (hne : fs ≠ []) :
    readRecord fs.length (recordStr fs ++ rest) = some (fs, rest) := by
  induction fs with
  | nil => exact absurd rfl hne
  | cons f fs ih =>
    cases fs with
    | nil =>
      have h : readField (quote f ++ ('\n' :: rest)) = some (f, '\n' :: rest) :=
        read_quote f ('\n' :: rest) (by simp [noQuoteAhead])
      simp [recordStr, readRecord, List.append_assoc, h]
    | cons g gs =>
      have h : readField (quote f ++ (',' :: (recordStr (g :: gs) ++ rest))) = some (f, ',' :: (recordStr (g :: gs) ++ rest)) :=
        read_quote f (',' :: (recordStr (g :: gs) ++ rest)) (by simp [noQuoteAhead])
      have ih' := ih (by simp)
      simp only [List.length_cons] at ih'
      simp only [recordStr, List.length_cons, List.append_assoc, List.cons_append]
      rw [readRecord]
      simp only [h, ih', Option.map]

/-- the whole output: the records one after the other -/
def fileStr : List (List (List Char)) → List Char
  | [] => []
  | r :: rs => recordStr r ++ fileStr rs

def readFile : List (List (List Char)) → List Char → Option (List (List (List Char)))
  | [], inp => if inp = [] then some [] else none
  | r :: rs, inp =>
    match readRecord r.length inp with
    | none => none
    | some (fs, rest) => (readFile rs rest).map (fun t => fs :: t)

/-- a strict reader, told only how many records and fields to expect, reads back exactly the rows -/
theorem read_file (rows : List (List (List Char))) (h : ∀ r ∈ rows, r ≠ []) :
    readFile rows (fileStr rows) = some rows := by
  induction rows with
  | nil => simp [readFile, fileStr]
  | cons r rs ih =>
    have hr : r ≠ [] := h r (by simp)
    have ih' := ih (fun x hx => h x (by simp [hx]))
    simp [readFile, fileStr, read_record r (fileStr rs) hr, ih']
