package decoration

// Bounded stand-in for the ASSUMED contract of (*Decoration).Populate (reflection: outside govc's subset).
// The table below mirrors the `ensures` equations of the contract in zz_verif_contracts.go, in the same
// order: each field keeps a non-empty value, otherwise takes the (already final) value of its source.
// Bound: every emptiness pattern of the 22 string fields (2^22, thorough) / all patterns with at most
// three fields set plus 50000 pseudo-random ones (quick); set fields carry distinct one-byte markers, and every
// seventh pattern is run again with long markers.

import (
	"math/rand"
	"reflect"
	"runtime"
	"sync"
	"sync/atomic"
	"testing"
)

var standinDefaults = [][2]string{
	{"Horizontal", "=H"}, {"Vertical", "=V"}, {"CrossPiece", "=X"},
	{"TopDown", "CrossPiece"}, {"VBorder", "Vertical"},
	{"HOuter", "Horizontal"}, {"HRule", "Horizontal"}, {"VHeader", "VBorder"}, {"VBodyBorder", "VBorder"}, {"VBodyInner", "Vertical"},
	{"TopLeft", "CrossPiece"}, {"TopRight", "CrossPiece"}, {"BottomLeft", "CrossPiece"}, {"BottomRight", "CrossPiece"},
	{"LeftBodyRule", "CrossPiece"}, {"RightBodyRule", "CrossPiece"},
	{"HTopDown", "TopDown"}, {"BTopDown", "TopDown"}, {"BBottomUp", "CrossPiece"}, {"HBCross", "CrossPiece"},
	{"HBLeft", "LeftBodyRule"}, {"HBRight", "RightBodyRule"},
}

// standinMarker: the value a set field carries. Short markers are one byte long (a field of length 1 is as
// much "set" as a longer one), long ones name the field.
func standinMarker(i int, f string, short bool) string {
	if short {
		return string(rune('a' + i))
	}
	return "<" + f + ">"
}

func standinCheck(t *testing.T, mask uint32, boxless bool) bool {
	return standinCheckWith(t, mask, boxless, true) && (mask%7 != 0 || standinCheckWith(t, mask, boxless, false))
}

func standinCheckWith(t *testing.T, mask uint32, boxless bool, short bool) bool {
	var d Decoration
	d.isBoxless = boxless
	dv := reflect.ValueOf(&d).Elem()
	in := map[string]string{}
	for i, f := range standinDefaults {
		if mask&(1<<uint(i)) != 0 {
			dv.FieldByName(f[0]).SetString(standinMarker(i, f[0], short))
			in[f[0]] = standinMarker(i, f[0], short)
		}
	}
	d.Populate()
	want := map[string]string{}
	for _, f := range standinDefaults {
		if v := in[f[0]]; v != "" {
			want[f[0]] = v
		} else if f[1][0] == '=' {
			want[f[0]] = f[1][1:]
		} else {
			want[f[0]] = want[f[1]]
		}
	}
	ok := d.isBoxless == boxless
	for _, f := range standinDefaults {
		if got := dv.FieldByName(f[0]).String(); got != want[f[0]] {
			t.Errorf("Populate with fields set %v (mask %#x): %s = %q, contract says %q", in, mask, f[0], got, want[f[0]])
			ok = false
		}
	}
	if !ok {
		t.Errorf("failing input: Decoration with exactly the fields %v set, isBoxless=%v", in, boxless)
	}
	return ok
}

func TestStandinPopulateQuick(t *testing.T) {
	if dv := reflect.TypeOf(Decoration{}); dv.NumField() != len(standinDefaults)+1 {
		t.Fatalf("Decoration has %d fields, the contract covers %d (+isBoxless)", dv.NumField(), len(standinDefaults))
	}
	n := len(standinDefaults)
	bad := 0
	try := func(m uint32) {
		if bad < 3 && !standinCheck(t, m, m%2 == 1) {
			bad++
		}
	}
	try(0)
	for i := 0; i < n; i++ {
		try(1 << uint(i))
		for j := i + 1; j < n; j++ {
			try(1<<uint(i) | 1<<uint(j))
			for k := j + 1; k < n; k++ {
				try(1<<uint(i) | 1<<uint(j) | 1<<uint(k))
			}
		}
	}
	r := rand.New(rand.NewSource(1))
	for i := 0; i < 50000; i++ {
		try(uint32(r.Intn(1 << uint(n))))
	}
}

func TestStandinPopulateAll(t *testing.T) {
	if dv := reflect.TypeOf(Decoration{}); dv.NumField() != len(standinDefaults)+1 {
		t.Fatalf("Decoration has %d fields, the contract covers %d (+isBoxless)", dv.NumField(), len(standinDefaults))
	}
	total := uint32(1) << uint(len(standinDefaults))
	workers := uint32(runtime.NumCPU())
	var wg sync.WaitGroup
	var bad int32
	for w := uint32(0); w < workers; w++ {
		wg.Add(1)
		go func(w uint32) {
			defer wg.Done()
			for m := w; m < total; m += workers {
				if atomic.LoadInt32(&bad) >= 3 {
					return
				}
				if !standinCheck(t, m, m%2 == 1) {
					atomic.AddInt32(&bad, 1)
				}
			}
		}(w)
	}
	wg.Wait()
}
